//! Concurrent part of C16, shared by the main harness (real snow) and by the `c16x` crate (a copy
//! of /repo/src in which every std/core sync primitive is mapped to shuttle's, so that atomics or
//! locks introduced *inside* snow become scheduling points of the exhaustive exploration).
//! Uses only `snow::` and `shuttle::`.

use snow::{
    params::{CipherChoice, DHChoice, HashChoice},
    resolvers::{BoxedCryptoResolver, CryptoResolver, DefaultResolver, FallbackResolver, RingResolver},
    types::{Cipher, Dh, Hash, Random},
    Builder, StatelessTransportState,
};
use std::sync::{
    atomic::{AtomicBool, AtomicU64, Ordering},
    Arc, Mutex,
};

pub fn key_bytes(tag: u8) -> Vec<u8> {
    (0..32u8).map(|i| if i == 0 { 0x20 | (tag & 0x0f) } else { tag.wrapping_mul(31).wrapping_add(i.wrapping_mul(7)) }).collect()
}
pub fn payload_bytes(len: usize, tag: u8) -> Vec<u8> {
    (0..len).map(|i| 0x40u8.wrapping_add(tag).wrapping_add((i as u8).wrapping_mul(13)) ^ ((i >> 8) as u8)).collect()
}

/// 0 = DefaultResolver, 1 = Fallback(Ring, Default)
pub fn backend(ring: bool) -> BoxedCryptoResolver {
    if ring {
        Box::new(FallbackResolver::new(Box::new(RingResolver), Box::new(DefaultResolver)))
    } else {
        Box::new(DefaultResolver)
    }
}

pub static YIELD_ON: AtomicBool = AtomicBool::new(false);
pub static REAL_THREADS: AtomicBool = AtomicBool::new(false);

pub static YIELDS: AtomicU64 = AtomicU64::new(0);
pub fn seam_yield() {
    if YIELD_ON.load(Ordering::SeqCst) {
        YIELDS.fetch_add(1, Ordering::SeqCst);
        if REAL_THREADS.load(Ordering::SeqCst) {
            std::thread::yield_now();
        } else {
            shuttle::thread::yield_now();
        }
    }
}

struct YieldCipher(Box<dyn Cipher>);
impl Cipher for YieldCipher {
    fn name(&self) -> &'static str {
        self.0.name()
    }
    fn set(&mut self, k: &[u8; 32]) {
        self.0.set(k);
    }
    fn encrypt(&self, n: u64, a: &[u8], p: &[u8], o: &mut [u8]) -> usize {
        seam_yield();
        let r = self.0.encrypt(n, a, p, o);
        seam_yield();
        r
    }
    fn decrypt(&self, n: u64, a: &[u8], c: &[u8], o: &mut [u8]) -> Result<usize, snow::Error> {
        seam_yield();
        let r = self.0.decrypt(n, a, c, o);
        seam_yield();
        r
    }
    fn rekey(&mut self) {
        self.0.rekey();
    }
}
struct YieldResolver(BoxedCryptoResolver);
impl CryptoResolver for YieldResolver {
    fn resolve_rng(&self) -> Option<Box<dyn Random>> {
        self.0.resolve_rng()
    }
    fn resolve_dh(&self, c: &DHChoice) -> Option<Box<dyn Dh>> {
        self.0.resolve_dh(c)
    }
    fn resolve_hash(&self, c: &HashChoice) -> Option<Box<dyn Hash>> {
        self.0.resolve_hash(c)
    }
    fn resolve_cipher(&self, c: &CipherChoice) -> Option<Box<dyn Cipher>> {
        self.0.resolve_cipher(c).map(|x| Box::new(YieldCipher(x)) as Box<dyn Cipher>)
    }
}

/// a fresh NN session in stateless mode (fixed ephemerals: every execution has the same keys)
pub fn stateless_pair(cipher: &'static str, ring: bool) -> (StatelessTransportState, StatelessTransportState) {
    let name = format!("Noise_NN_25519_{cipher}_SHA256");
    let (ei, er) = (key_bytes(3), key_bytes(4));
    let mk = |init: bool| {
        let bld = Builder::with_resolver(name.parse().unwrap(), Box::new(YieldResolver(backend(ring)))).fixed_ephemeral_key_for_testing_only(if init { &ei } else { &er });
        if init {
            bld.build_initiator().unwrap()
        } else {
            bld.build_responder().unwrap()
        }
    };
    let (mut i, mut r) = (mk(true), mk(false));
    let (mut m, mut o) = (vec![0u8; 256], vec![0u8; 256]);
    let n = i.write_message(&[], &mut m).unwrap();
    r.read_message(&m[..n], &mut o).unwrap();
    let n = r.write_message(&[], &mut m).unwrap();
    i.read_message(&m[..n], &mut o).unwrap();
    (i.into_stateless_transport_mode().unwrap(), r.into_stateless_transport_mode().unwrap())
}

#[derive(Clone, Debug)]
pub enum Call {
    /// write on the initiator (true) / responder (false) side object
    Write { init: bool, nonce: u64, plen: usize },
    /// read on that side of the message the peer writes under `nonce` with `plen` payload bytes
    Read { init: bool, nonce: u64, plen: usize },
    /// the same read into an output buffer of exactly `plen` bytes (no room for the tag: the backends take a
    /// different path, ring's through a copy)
    ReadTight { init: bool, nonce: u64, plen: usize },
}

pub fn run_call(c: &Call, si: &StatelessTransportState, sr: &StatelessTransportState, msgs: &dyn Fn(bool, u64, usize) -> Vec<u8>) -> Result<Vec<u8>, String> {
    match c {
        Call::Write { init, nonce, plen } => {
            let st = if *init { si } else { sr };
            let mut out = vec![0u8; plen + 16];
            st.write_message(*nonce, &payload_bytes(*plen, *nonce as u8), &mut out).map(|n| out[..n].to_vec()).map_err(|e| format!("{e:?}"))
        },
        Call::Read { init, nonce, plen } | Call::ReadTight { init, nonce, plen } => {
            let st = if *init { si } else { sr };
            let m = msgs(!*init, *nonce, *plen);
            let mut out = vec![0u8; if matches!(c, Call::ReadTight { .. }) { *plen } else { *plen + 16 }];
            st.read_message(*nonce, &m, &mut out).map(|n| out[..n].to_vec()).map_err(|e| format!("{e:?}"))
        },
    }
}

pub fn how(got: &Result<Vec<u8>, String>, want: &Result<Vec<u8>, String>) -> &'static str {
    match (got, want) {
        (Ok(_), Ok(_)) => "returned Ok with other bytes",
        (Ok(_), Err(_)) => "succeeded although the sequential call fails",
        (Err(_), Ok(_)) => "failed although the sequential call succeeds",
        (Err(_), Err(_)) => "failed differently",
    }
}

/// sequential reference: what each call returns when nothing runs concurrently
pub fn expected(cipher: &'static str, ring: bool, threads: &[Vec<Call>]) -> (Vec<Vec<Result<Vec<u8>, String>>>, impl Fn(bool, u64, usize) -> Vec<u8> + Clone + Send + Sync + 'static) {
    YIELD_ON.store(false, Ordering::SeqCst);
    let (si, sr) = stateless_pair(cipher, ring);
    let (si, sr) = (Arc::new(si), Arc::new(sr));
    let (si2, sr2) = (si.clone(), sr.clone());
    // genuine messages are computed sequentially, up front, on a session of the same keys
    let mut table: std::collections::HashMap<(bool, u64, usize), Vec<u8>> = std::collections::HashMap::new();
    for c in threads.iter().flatten() {
        if let Call::Read { init, nonce, plen } | Call::ReadTight { init, nonce, plen } = c {
            let from_init = !*init;
            let st = if from_init { &si2 } else { &sr2 };
            let mut out = vec![0u8; plen + 16];
            // no message exists under the reserved nonce: any well-formed bytes do (the read must fail)
            let wn = if *nonce == u64::MAX { 0 } else { *nonce };
            let n = st.write_message(wn, &payload_bytes(*plen, *nonce as u8), &mut out).unwrap_or(0);
            table.insert((from_init, *nonce, *plen), out[..n].to_vec());
        }
    }
    let table = Arc::new(table);
    let msgs = move |from_init: bool, nonce: u64, plen: usize| -> Vec<u8> { table.get(&(from_init, nonce, plen)).cloned().unwrap_or_default() };
    let exp = threads.iter().map(|t| t.iter().map(|c| run_call(c, &si, &sr, &msgs)).collect()).collect();
    (exp, msgs)
}

pub fn mixes() -> Vec<(&'static str, Vec<Vec<Call>>)> {
    let w = |init, nonce, plen| Call::Write { init, nonce, plen };
    let r = |init, nonce, plen| Call::Read { init, nonce, plen };
    vec![
        ("2x2 write/write same direction, different nonces", vec![vec![w(true, 1, 5), w(true, 2, 9)], vec![w(true, 3, 5), w(true, 1 << 40, 7)]]),
        ("2x2 write/write same nonce", vec![vec![w(true, 7, 5), w(true, 7, 5)], vec![w(true, 7, 5), w(true, 7, 6)]]),
        ("2x2 write/read same object (both directions)", vec![vec![w(true, 1, 5), r(true, 2, 6)], vec![r(true, 1, 4), w(true, 2, 8)]]),
        ("2x2 read/read", vec![vec![r(false, 1, 5), r(false, 2, 9)], vec![r(false, 3, 5), r(false, 1, 5)]]),
        ("2x2 read/read into exactly payload-sized buffers", vec![vec![Call::ReadTight { init: false, nonce: 1, plen: 5 }, Call::ReadTight { init: false, nonce: 2, plen: 9 }], vec![Call::ReadTight { init: false, nonce: 3, plen: 5 }, Call::ReadTight { init: false, nonce: 1, plen: 5 }]]),
        ("3x1 write/write/read", vec![vec![w(false, 4, 3)], vec![w(false, 5, 3)], vec![r(false, 4, 6)]]),
        ("3x1 reads incl. a rejected one", vec![vec![r(true, 9, 3)], vec![r(true, 10, 3)], vec![Call::Read { init: true, nonce: u64::MAX, plen: 3 }]]),
    ]
}

pub static EXECUTIONS: AtomicU64 = AtomicU64::new(0);

pub fn explore_mix(cipher: &'static str, ring: bool, threads: Vec<Vec<Call>>) -> (u64, Vec<String>) {
    let bad: Arc<Mutex<Vec<String>>> = Arc::new(Mutex::new(vec![]));
    let bad2 = bad.clone();
    let before = EXECUTIONS.load(Ordering::SeqCst);
    let threads = Arc::new(threads);
    REAL_THREADS.store(false, Ordering::SeqCst);
    // check_dfs with a roomier coroutine stack than shuttle's default 60 KiB (a handshake and 64 KiB messages run on
    // it; a snow that keeps a message-sized scratch array on the stack must not crash the explorer)
    let mut config = shuttle::Config::default();
    config.stack_size = 4 << 20;
    let runner = shuttle::Runner::new(shuttle::scheduler::DfsScheduler::new(None, false), config);
    runner.run(
        move || {
            YIELD_ON.store(false, Ordering::SeqCst);
            // Everything that touches snow happens inside the controlled execution (in the shuttle-mapped
            // copy even a handshake may execute scheduling points). The sequential reference - what each
            // call returns when nothing runs concurrently - is computed first, on a session of the same keys.
            let (exp, msgs) = expected(cipher, ring, &threads);
            let exp = Arc::new(exp);
            let (si, sr) = stateless_pair(cipher, ring);
            let (si, sr) = (Arc::new(si), Arc::new(sr));
            YIELD_ON.store(true, Ordering::SeqCst);
            EXECUTIONS.fetch_add(1, Ordering::SeqCst);
            let mut hs = vec![];
            for (t, calls) in threads.iter().enumerate() {
                let (si, sr, calls, exp, bad, msgs) = (si.clone(), sr.clone(), calls.clone(), exp.clone(), bad2.clone(), msgs.clone());
                hs.push(shuttle::thread::spawn(move || {
                    for (k, c) in calls.iter().enumerate() {
                        let got = run_call(c, &si, &sr, &msgs);
                        if got != exp[t][k] {
                            let mut g = bad.lock().unwrap();
                            if g.len() < 3 {
                                g.push(format!("thread {t} call {k} {c:?}: concurrent result differs from the sequential function ({})", how(&got, &exp[t][k])));
                            }
                        }
                    }
                }));
            }
            for h in hs {
                h.join().unwrap();
            }
            YIELD_ON.store(false, Ordering::SeqCst);
        },
    );
    let n = EXECUTIONS.load(Ordering::SeqCst) - before;
    let v = bad.lock().unwrap().clone();
    (n, v)
}

/// the same bodies on real threads, free running (a labelled sample, not the deciding step)
pub fn stress_mix(cipher: &'static str, ring: bool, threads: Vec<Vec<Call>>, rounds: usize) -> (u64, Vec<String>) {
    let (exp, msgs) = expected(cipher, ring, &threads);
    REAL_THREADS.store(true, Ordering::SeqCst);
    YIELD_ON.store(false, Ordering::SeqCst);
    let (si, sr) = stateless_pair(cipher, ring);
    let (si, sr) = (Arc::new(si), Arc::new(sr));
    YIELD_ON.store(true, Ordering::SeqCst);
    let bad: Arc<Mutex<Vec<String>>> = Arc::new(Mutex::new(vec![]));
    let exp = Arc::new(exp);
    let mut hs = vec![];
    // each logical thread is run by 3 OS threads to raise contention
    for (t, calls) in threads.iter().enumerate() {
        for _copy in 0..3 {
            let (si, sr, calls, exp, bad, msgs) = (si.clone(), sr.clone(), calls.clone(), exp.clone(), bad.clone(), msgs.clone());
            hs.push(std::thread::spawn(move || {
                for _ in 0..rounds {
                    for (k, c) in calls.iter().enumerate() {
                        let got = run_call(c, &si, &sr, &msgs);
                        if got != exp[t][k] {
                            let mut g = bad.lock().unwrap();
                            if g.len() < 3 {
                                g.push(format!("thread {t} call {k} {c:?}: result under real threads differs from the sequential function ({})", how(&got, &exp[t][k])));
                            }
                            return;
                        }
                    }
                }
            }));
        }
    }
    for h in hs {
        let _ = h.join();
    }
    YIELD_ON.store(false, Ordering::SeqCst);
    REAL_THREADS.store(false, Ordering::SeqCst);
    let v = bad.lock().unwrap().clone();
    ((rounds * threads.iter().map(Vec::len).sum::<usize>() * 3) as u64, v)
}

