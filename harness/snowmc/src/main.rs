fn main(){}
