//! snowmc <property> [--tier quick|thorough] [--replay <file>]
pub mod ctx;
pub mod engine;
pub mod exec;
pub mod props;
pub mod seam;
pub mod sess;

use ctx::{Ctx, Tier};

pub static LAST_PANIC: std::sync::Mutex<String> = std::sync::Mutex::new(String::new());
thread_local! {
    /// source file of the most recent panic on this thread (set by the panic hook)
    pub static THREAD_PANIC_FILE: std::cell::RefCell<String> = const { std::cell::RefCell::new(String::new()) };
}

fn main() {
    // panics inside the subject are caught at the call boundary; keep stderr quiet
    if std::env::var("SNOWMC_PANIC").is_err() {
        std::panic::set_hook(Box::new(|info| {
            // remember the most recent panic (with its location) for the machinery-error report
            if let Ok(mut g) = LAST_PANIC.lock() {
                *g = format!("{info}");
            }
            let loc = info.location().map(|l| l.file().to_string()).unwrap_or_default();
            THREAD_PANIC_FILE.with(|c| *c.borrow_mut() = loc);
        }));
    }
    let args: Vec<String> = std::env::args().collect();
    if args.len() < 2 {
        eprintln!("usage: snowmc <Cxx> [--tier quick|thorough] [--replay file]");
        std::process::exit(2);
    }
    let id = args[1].clone();
    let mut tier = match std::env::var("VERIF_TIER").as_deref() {
        Ok("thorough") => Tier::Thorough,
        _ => Tier::Quick,
    };
    let mut replay = None;
    let mut k = 2;
    while k < args.len() {
        match args[k].as_str() {
            "--tier" => {
                k += 1;
                tier = if args.get(k).map(String::as_str) == Some("thorough") { Tier::Thorough } else { Tier::Quick };
            },
            "--replay" => {
                k += 1;
                replay = args.get(k).cloned();
            },
            x => {
                eprintln!("unknown argument {x}");
                std::process::exit(2);
            },
        }
        k += 1;
    }
    let threads = std::env::var("VERIF_THREADS").ok().and_then(|s| s.parse().ok()).unwrap_or(16);
    rayon::ThreadPoolBuilder::new().num_threads(threads).stack_size(16 << 20).build_global().ok();
    if let Some(path) = replay {
        std::process::exit(props::replay(&id, &path));
    }
    let code = match std::panic::catch_unwind(|| props::run(&id, tier)) {
        Ok(c) => c,
        Err(_) => {
            // a panic of the harness itself (not of the subject, which is caught at the call boundary)
            eprintln!("MACHINERY-ERROR: the explorer panicked: {}", LAST_PANIC.lock().map(|g| g.clone()).unwrap_or_default());
            2
        },
    };
    std::process::exit(code);
}

pub fn new_ctx(id: &str, tier: Tier, level: &'static str) -> Ctx {
    Ctx::new(id, tier, level)
}
