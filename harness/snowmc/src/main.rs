//! snowmc <property> [--tier quick|thorough] [--replay <file>]
pub mod ctx;
pub mod engine;
pub mod exec;
pub mod props;
pub mod seam;
pub mod sess;

use ctx::{Ctx, Tier};

pub static LAST_PANIC: std::sync::Mutex<String> = std::sync::Mutex::new(String::new());
/// panic message -> source file of the panic (set by the panic hook); lets the top level tell a panic of the
/// subject that escaped through a call the harness did not guard from a panic of the harness itself
pub static PANIC_FILES: std::sync::Mutex<Vec<(String, String)>> = std::sync::Mutex::new(Vec::new());
thread_local! {
    /// source file of the most recent panic on this thread (set by the panic hook)
    pub static THREAD_PANIC_FILE: std::cell::RefCell<String> = const { std::cell::RefCell::new(String::new()) };
}

fn main() {
    // panics inside the subject are caught at the call boundary; keep stderr quiet
    if std::env::var("SNOWMC_PANIC").is_err() {
        std::panic::set_hook(Box::new(|info| {
            // remember the most recent panic (with its location) for the machinery-error report
            if let Ok(mut g) = LAST_PANIC.lock() {
                *g = format!("{info}");
            }
            if std::env::var_os("VERIF_BT").is_some() {
                eprintln!("PANIC {info}\n{}", std::backtrace::Backtrace::force_capture());
            }
            let loc = info.location().map(|l| l.file().to_string()).unwrap_or_default();
            let msg = if let Some(m) = info.payload().downcast_ref::<&str>() {
                (*m).to_string()
            } else if let Some(m) = info.payload().downcast_ref::<String>() {
                m.clone()
            } else {
                String::new()
            };
            if let Ok(mut g) = PANIC_FILES.lock() {
                if !g.iter().any(|(m, f)| *m == msg && *f == loc) && g.len() < 4096 {
                    g.push((msg, loc.clone()));
                }
            }
            THREAD_PANIC_FILE.with(|c| *c.borrow_mut() = loc);
        }));
    }
    let args: Vec<String> = std::env::args().collect();
    if args.len() < 2 {
        eprintln!("usage: snowmc <Cxx> [--tier quick|thorough] [--replay file]");
        std::process::exit(2);
    }
    let id = args[1].clone();
    let mut tier = match std::env::var("VERIF_TIER").as_deref() {
        Ok("thorough") => Tier::Thorough,
        _ => Tier::Quick,
    };
    let mut replay = None;
    let mut k = 2;
    while k < args.len() {
        match args[k].as_str() {
            "--tier" => {
                k += 1;
                tier = if args.get(k).map(String::as_str) == Some("thorough") { Tier::Thorough } else { Tier::Quick };
            },
            "--replay" => {
                k += 1;
                replay = args.get(k).cloned();
            },
            x => {
                eprintln!("unknown argument {x}");
                std::process::exit(2);
            },
        }
        k += 1;
    }
    let threads = std::env::var("VERIF_THREADS").ok().and_then(|s| s.parse().ok()).unwrap_or(16);
    rayon::ThreadPoolBuilder::new().num_threads(threads).stack_size(16 << 20).build_global().ok();
    // whole-run horizon: an exploration that is still running after this long is stuck (e.g. the subject blocks on
    // a lock the scheduler cannot see) - a machinery exit, never a verdict. VERIF_MAX_SECS overrides.
    {
        let default = if tier == Tier::Thorough { 6 * 3600 } else { 3600 };
        let secs = std::env::var("VERIF_MAX_SECS").ok().and_then(|s| s.parse::<u64>().ok()).unwrap_or(default);
        std::thread::spawn(move || {
            std::thread::sleep(std::time::Duration::from_secs(secs));
            eprintln!("MACHINERY-ERROR: the exploration did not finish within {secs} s (VERIF_MAX_SECS)");
            std::process::exit(2);
        });
    }
    if let Some(path) = replay {
        std::process::exit(props::replay(&id, &path));
    }
    let code = match std::panic::catch_unwind(|| props::run(&id, tier)) {
        Ok(c) => c,
        Err(p) => {
            // a panic that escaped: of the harness itself, or of the subject through a call the harness
            // makes without a guard because it is routine (an honest step that prepares a state). The second
            // is the library failing a call the property relies on, not a fault of the machinery.
            let msg = if let Some(m) = p.downcast_ref::<&str>() {
                (*m).to_string()
            } else if let Some(m) = p.downcast_ref::<String>() {
                m.clone()
            } else {
                String::new()
            };
            let files: Vec<String> = PANIC_FILES.lock().map(|g| g.iter().filter(|(m, _)| *m == msg).map(|(_, f)| f.clone()).collect()).unwrap_or_default();
            let in_subject = |f: &String| f.contains("/src/") && !f.contains("/harness") && !f.contains(".cargo") && !f.contains("/rustc/") && !f.contains("/rustlib/");
            if !files.is_empty() && files.iter().all(in_subject) {
                let file = files[0].rsplit("/repo/").next().unwrap_or(&files[0]).to_string();
                let short: String = msg.chars().take(90).collect();
                let ctx = Ctx::new(&id, tier, "model_checking");
                ctx.set_rule("the exploration stopped at a panic inside snow, raised by a routine call (an honest step preparing a state) that every property presupposes to return");
                ctx.violation(format!("a routine call into snow panicked ({file}: {short})"), msg.clone(), serde_json::json!({"kind": "uncaught-panic", "file": file, "message": msg}));
                std::process::exit(ctx.finish());
            }
            eprintln!("MACHINERY-ERROR: the explorer panicked: {}", LAST_PANIC.lock().map(|g| g.clone()).unwrap_or_default());
            2
        },
    };
    std::process::exit(code);
}

pub fn new_ctx(id: &str, tier: Tier, level: &'static str) -> Ctx {
    Ctx::new(id, tier, level)
}
