//! Run context shared by all property checks: tier, counters, violations, known findings,
//! evidence and replay files.

use serde_json::{json, Map, Value};
use std::{
    collections::BTreeMap,
    sync::{
        atomic::{AtomicU64, Ordering},
        Mutex,
    },
    time::Instant,
};

/// Root of the verification tree (evidence, replays, data, known findings). Overridable so that a
/// scratch copy of the harness can check a scratch copy of the repository without touching /verif.
pub static VERIF_DIR: std::sync::LazyLock<String> = std::sync::LazyLock::new(|| std::env::var("VERIF_ROOT").unwrap_or_else(|_| "/verif".to_string()));

#[derive(Clone, Copy, PartialEq, Eq, Debug)]
pub enum Tier {
    Quick,
    Thorough,
}

#[derive(Clone, Debug)]
pub struct Violation {
    /// call + failure class + token context; never a pattern name or concrete bytes
    pub signature: String,
    pub detail: String,
    /// everything `--replay` needs
    pub case: Value,
}

pub struct Ctx {
    pub id: String,
    pub tier: Tier,
    pub seed: u64,
    pub start: Instant,
    pub level: &'static str,
    pub violations: Mutex<Vec<Violation>>,
    pub evaluations: AtomicU64,
    pub nontrivial: AtomicU64,
    pub states: AtomicU64,
    pub transitions: AtomicU64,
    pub traces: AtomicU64,
    pub counters: Mutex<BTreeMap<String, u64>>,
    pub samples: Mutex<Vec<Value>>,
    pub notes: Mutex<Vec<String>>,
    /// explorations whose non-vacuity witness was not reached
    pub vacuity: Mutex<Vec<String>>,
    pub extra: Mutex<Map<String, Value>>,
    pub assumptions: Mutex<Vec<String>>,
    pub exhaustive: Mutex<Option<bool>>,
    pub rule: Mutex<String>,
}

impl Ctx {
    pub fn new(id: &str, tier: Tier, level: &'static str) -> Ctx {
        let seed = std::env::var("VERIF_SEED").ok().and_then(|s| s.parse().ok()).unwrap_or(0);
        Ctx {
            id: id.to_string(),
            tier,
            seed,
            start: Instant::now(),
            level,
            violations: Mutex::new(vec![]),
            evaluations: AtomicU64::new(0),
            nontrivial: AtomicU64::new(0),
            states: AtomicU64::new(0),
            transitions: AtomicU64::new(0),
            traces: AtomicU64::new(0),
            counters: Mutex::new(BTreeMap::new()),
            samples: Mutex::new(vec![]),
            notes: Mutex::new(vec![]),
            vacuity: Mutex::new(vec![]),
            extra: Mutex::new(Map::new()),
            assumptions: Mutex::new(vec![]),
            exhaustive: Mutex::new(None),
            rule: Mutex::new(String::new()),
        }
    }
    pub fn quick(&self) -> bool {
        self.tier == Tier::Quick
    }
    pub fn add(&self, c: &AtomicU64, n: u64) {
        c.fetch_add(n, Ordering::Relaxed);
    }
    pub fn count(&self, key: &str, n: u64) {
        *self.counters.lock().unwrap().entry(key.to_string()).or_insert(0) += n;
    }
    pub fn sample(&self, v: Value) {
        let mut s = self.samples.lock().unwrap();
        if s.len() < 12 {
            s.push(v);
        }
    }
    pub fn note(&self, s: impl Into<String>) {
        self.notes.lock().unwrap().push(s.into());
    }
    /// An exploration that never reached its goal state. On a tree without violations this means the
    /// harness explored a vacuous space: a machinery error, never a pass.
    pub fn vacuous(&self, s: impl Into<String>) {
        let s = s.into();
        self.note(format!("{s} (vacuity warning)"));
        self.vacuity.lock().unwrap().push(s);
    }
    pub fn assume(&self, s: impl Into<String>) {
        self.assumptions.lock().unwrap().push(s.into());
    }
    pub fn set(&self, k: &str, v: Value) {
        self.extra.lock().unwrap().insert(k.to_string(), v);
    }
    pub fn set_rule(&self, s: impl Into<String>) {
        *self.rule.lock().unwrap() = s.into();
    }
    pub fn violation(&self, signature: impl Into<String>, detail: impl Into<String>, case: Value) {
        let mut v = self.violations.lock().unwrap();
        // keep the first (simplest-first enumeration order => shortest) few per signature
        let signature = signature.into();
        if v.iter().filter(|x| x.signature == signature).count() < 3 && v.len() < 200 {
            v.push(Violation { signature, detail: detail.into(), case });
        }
    }
    pub fn n_violations(&self) -> usize {
        self.violations.lock().unwrap().len()
    }

    /// Bind the reference model (KATs + cacophony vectors). A failure here is a machinery error.
    pub fn bind_model(&self) {
        match refnoise::kat::run() {
            Ok(n) => self.set("kats_passed", json!(n)),
            Err(e) => machinery(&format!("reference primitive KAT failed: {e}")),
        }
        let path = format!("{}/data/cacophony.json", *VERIF_DIR);
        let text = std::fs::read_to_string(&path).unwrap_or_else(|e| machinery(&format!("{path}: {e}")));
        match refnoise::vectors::validate(&text) {
            Ok(r) => {
                if r.validated < 472 {
                    machinery(&format!("reference model validated only {} cacophony vectors", r.validated));
                }
                self.set("model_vectors_validated", json!(r.validated));
                self.set("model_vector_messages_compared", json!(r.messages_compared));
            },
            Err(e) => machinery(&format!("reference model disagrees with cacophony: {e}")),
        }
    }

    /// Write evidence, report violations / known findings, return the process exit code.
    pub fn finish(self) -> i32 {
        let wall = self.start.elapsed().as_secs_f64();
        let known = load_known();
        let viols = self.violations.into_inner().unwrap();
        let mut new: Vec<&Violation> = vec![];
        let mut known_hit: BTreeMap<String, usize> = BTreeMap::new();
        for v in &viols {
            if known.iter().any(|k| self.id.starts_with(&k.property) && k.status == "open" && v.signature.contains(&k.signature)) {
                *known_hit.entry(v.signature.clone()).or_insert(0) += 1;
            } else {
                new.push(v);
            }
        }
        let mut cov = Map::new();
        let ev = self.evaluations.load(Ordering::Relaxed);
        let nt = self.nontrivial.load(Ordering::Relaxed);
        cov.insert("evaluations".into(), json!(ev));
        cov.insert("distinct_nontrivial".into(), json!(nt));
        cov.insert("rule".into(), json!(self.rule.into_inner().unwrap()));
        cov.insert("states".into(), json!(self.states.load(Ordering::Relaxed)));
        cov.insert("transitions".into(), json!(self.transitions.load(Ordering::Relaxed)));
        cov.insert("traces_validated_against_impl".into(), json!(self.traces.load(Ordering::Relaxed)));
        let samples = self.samples.into_inner().unwrap();
        cov.insert("samples".into(), Value::Array(if samples.is_empty() { vec![json!("(no case recorded)")] } else { samples }));
        if let Some(e) = self.exhaustive.into_inner().unwrap() {
            cov.insert("exhaustive".into(), json!(e));
        }
        let counters = self.counters.into_inner().unwrap();
        cov.insert("counters".into(), json!(counters));
        cov.insert("notes".into(), json!(self.notes.into_inner().unwrap()));
        for (k, v) in self.extra.into_inner().unwrap() {
            cov.insert(k, v);
        }
        // the hfs build of this property ran first (./check runs it before the main build): fold its summary in
        if !self.id.contains('.') {
            if let Ok(t) = std::fs::read_to_string(format!("{}/evidence/{}.hfs.json", *VERIF_DIR, self.id)) {
                if let Ok(v) = serde_json::from_str::<Value>(&t) {
                    cov.insert("hfs_build".into(), json!({"evaluations": v["coverage"]["evaluations"], "distinct_nontrivial": v["coverage"]["distinct_nontrivial"], "rule": v["coverage"]["rule"], "violations": v["violations"], "wall_s": v["wall_s"], "counters": v["coverage"]["counters"]}));
                }
            }
        }
        cov.insert("known_findings_hit".into(), json!(known_hit));
        let base_id = self.id.split('.').next().unwrap_or(&self.id).to_string();
        let evidence = json!({
            "property_id": base_id,
            "tier": if self.tier == Tier::Quick { "quick" } else { "thorough" },
            "seed": self.seed,
            "level": self.level,
            "coverage": Value::Object(cov),
            "assumptions": self.assumptions.into_inner().unwrap(),
            "wall_s": wall,
            "violations": new.len(),
        });
        let _ = std::fs::create_dir_all(format!("{}/evidence", *VERIF_DIR));
        let path = format!("{}/evidence/{}.json", *VERIF_DIR, self.id);
        std::fs::write(&path, serde_json::to_string_pretty(&evidence).unwrap()).unwrap_or_else(|e| machinery(&format!("{path}: {e}")));
        for (sig, n) in &known_hit {
            println!("KNOWN-FINDING: property={} {} ({} cases)", self.id, sig, n);
        }
        println!(
            "[{}] tier={:?} evaluations={} nontrivial={} states={} transitions={} wall={:.1}s violations={}",
            self.id,
            self.tier,
            ev,
            nt,
            evidence["coverage"]["states"],
            evidence["coverage"]["transitions"],
            wall,
            new.len()
        );
        if new.is_empty() {
            let vac = self.vacuity.into_inner().unwrap();
            if !vac.is_empty() && known_hit.is_empty() {
                eprintln!("MACHINERY-ERROR: {} exploration(s) never reached their goal state although nothing was violated (vacuous search), e.g. {}", vac.len(), vac[0]);
                return 2;
            }
            return 0;
        }
        let _ = std::fs::create_dir_all(format!("{}/replays", *VERIF_DIR));
        let mut seen: Vec<String> = vec![];
        for v in &new {
            if seen.contains(&v.signature) {
                continue;
            }
            seen.push(v.signature.clone());
            let body = json!({"property": self.id, "signature": v.signature, "detail": v.detail, "case": v.case});
            let text = serde_json::to_string_pretty(&body).unwrap();
            let digest = {
                use sha2::Digest;
                hex::encode(&sha2::Sha256::digest(text.as_bytes())[..6])
            };
            let rp = format!("{}/replays/{}-{}.json", *VERIF_DIR, self.id, digest);
            let _ = std::fs::write(&rp, text);
            println!("  signature: {}", v.signature);
            println!("  detail: {}", v.detail);
            println!("VIOLATION property={} replay={}", self.id.split('.').next().unwrap_or(&self.id), rp);
        }
        1
    }
}

pub fn machinery(msg: &str) -> ! {
    eprintln!("MACHINERY-ERROR: {msg}");
    std::process::exit(2)
}

#[derive(Clone, Debug)]
pub struct Known {
    pub property: String,
    pub status: String,
    pub signature: String,
}

/// /verif/known_findings.json: [{"property": "C10", "status": "open"|"fixed", "signature": "...", ...}]
pub fn load_known() -> Vec<Known> {
    let path = format!("{}/known_findings.json", *VERIF_DIR);
    let Ok(t) = std::fs::read_to_string(&path) else { return vec![] };
    let v: Value = serde_json::from_str(&t).unwrap_or_else(|e| machinery(&format!("{path}: {e}")));
    v["findings"]
        .as_array()
        .map(|a| {
            a.iter()
                .map(|x| Known {
                    property: x["property"].as_str().unwrap_or("").to_string(),
                    status: x["status"].as_str().unwrap_or("").to_string(),
                    signature: x["signature"].as_str().unwrap_or("\u{0}").to_string(),
                })
                .collect()
        })
        .unwrap_or_default()
}
