//! The executor: runs a sequence of API calls on *real* snow objects (two endpoints of one
//! session) and, in lock step, on a boring reference model; every step is compared.
//!
//! Two model layers:
//!  * the **abstract** layer (always on) knows nothing about cryptography: messages carry a
//!    provenance (who wrote them, at which position / under which key term and nonce, after which
//!    transcript) and a read is expected to succeed iff the provenance is the one the receiver is
//!    waiting for. This is what C04/C05/C07/C09/C11/C15/C16 state.
//!  * the **crypto** layer (`Config::crypto_oracle`) additionally runs `refnoise` and compares
//!    bytes, hashes and acceptance decisions (C01, C15 bytes, C17, C20).
//! Mismatches are categorised; each property judges only the categories it is about.

use crate::seam::{Backend, Log, RngMode, SeamResolver};
use refnoise::{patterns::Tok, state as rs, Proto};
use serde::{Deserialize, Serialize};
use snow::{params::NoiseParams, Builder, HandshakeState, StatelessTransportState, TransportState};
use std::panic::{catch_unwind, AssertUnwindSafe};

#[derive(Clone, Copy, PartialEq, Eq, Hash, Debug, Serialize, Deserialize, PartialOrd, Ord)]
pub enum Side {
    I,
    R,
}
impl Side {
    pub fn idx(self) -> usize {
        match self {
            Side::I => 0,
            Side::R => 1,
        }
    }
    pub fn peer(self) -> Side {
        match self {
            Side::I => Side::R,
            Side::R => Side::I,
        }
    }
    pub fn is_init(self) -> bool {
        self == Side::I
    }
}
pub const SIDES: [Side; 2] = [Side::I, Side::R];

#[derive(Clone, PartialEq, Eq, Hash, Debug, Serialize, Deserialize)]
pub enum Eph {
    /// `fixed_ephemeral_key_for_testing_only`
    Fixed(Vec<u8>),
    /// ScriptedRng stream; ephemerals are whatever the write draws
    Scripted(u64),
    /// the backend's own RNG (OS randomness): labelled sample runs only
    Os,
}

#[derive(Clone, PartialEq, Eq, Hash, Debug, Serialize, Deserialize)]
pub struct Config {
    pub name: String,
    pub backend: [Backend; 2],
    pub prologue: [Vec<u8>; 2],
    pub s_priv: [Option<Vec<u8>>; 2],
    pub rs_pub: [Option<Vec<u8>>; 2],
    pub psks: [Vec<Option<[u8; 32]>>; 2],
    pub eph: [Eph; 2],
    pub record: bool,
    pub crypto_oracle: bool,
    /// the name string hashed into the handshake by each side, when different from `name`
    /// (same primitive choices; built through the public `NoiseParams::name` field)
    #[serde(default)]
    pub hashed_name: [Option<String>; 2],
    /// a different protocol name parsed by one side (C08: peers that disagree on a component)
    #[serde(default)]
    pub parse_name: [Option<String>; 2],
}

pub fn key_bytes(tag: u8) -> Vec<u8> {
    // valid for X25519 (any bytes) and P-256 (well below n, non-zero)
    (0..32u8).map(|i| if i == 0 { 0x20 | (tag & 0x0f) } else { tag.wrapping_mul(31).wrapping_add(i.wrapping_mul(7)) }).collect()
}
pub fn psk_bytes(idx: u8, tag: u8) -> [u8; 32] {
    let mut k = [0u8; 32];
    for (i, b) in k.iter_mut().enumerate() {
        *b = 0xa0 ^ idx.wrapping_mul(17) ^ tag.wrapping_mul(29) ^ (i as u8).wrapping_mul(3);
    }
    k
}

impl Config {
    /// The honest configuration for a protocol: exactly the keys the pattern needs, all psks,
    /// default prologue, fixed ephemerals, key set `ks`.
    pub fn honest(proto: &Proto, ks: u8) -> Config {
        let s = [key_bytes(1 + 4 * ks), key_bytes(2 + 4 * ks)];
        let pubk = |sk: &Vec<u8>| proto.dh.pubkey(sk).expect("valid key");
        let pat = &proto.pattern;
        let mut psks = vec![None; 10];
        for p in &proto.psks {
            psks[usize::from(*p)] = Some(psk_bytes(*p, ks));
        }
        Config {
            name: proto.name.clone(),
            backend: [Backend::Default, Backend::Default],
            prologue: [b"snowmc-p0".to_vec(), b"snowmc-p0".to_vec()],
            s_priv: [
                pat.role_uses_own_static(true).then(|| s[0].clone()),
                pat.role_uses_own_static(false).then(|| s[1].clone()),
            ],
            rs_pub: [
                pat.role_needs_remote_static(true).then(|| pubk(&s[1])),
                pat.role_needs_remote_static(false).then(|| pubk(&s[0])),
            ],
            psks: [psks.clone(), psks],
            // the responder of a one-way pattern never sends `e`: it is given no fixed ephemeral, so that it holds an
            // ungenerated one as in ordinary use (its RNG is never asked either)
            eph: [Eph::Fixed(key_bytes(3 + 4 * ks)), if pat.is_oneway() { Eph::Scripted(0x0e00 + u64::from(ks)) } else { Eph::Fixed(key_bytes(4 + 4 * ks)) }],
            record: false,
            crypto_oracle: true,
            hashed_name: [None, None],
            parse_name: [None, None],
        }
    }
    pub fn scripted(mut self, seed: u64) -> Config {
        self.eph = [Eph::Scripted(seed), Eph::Scripted(seed + 1000)];
        self
    }
    pub fn proto(&self) -> Proto {
        Proto::parse(&self.name).unwrap_or_else(|| panic!("machinery: cannot parse {}", self.name))
    }
}

// ---------------------------------------------------------------------------------------------
// operations

#[derive(Clone, PartialEq, Eq, Hash, Debug, Serialize, Deserialize)]
pub enum Cap {
    /// buffer of exactly this many bytes
    Exact(usize),
    /// what the model says the call needs (message length for writes, payload length for reads) plus k
    NeedPlus(isize),
    /// comfortably large (needed + 64, at least 128)
    Roomy,
}

#[derive(Clone, PartialEq, Eq, Hash, Debug, Serialize, Deserialize)]
pub enum Alter {
    FlipBit(usize),
    /// flip the lowest bit of the last byte (inside the payload tag when there is one)
    FlipLast,
    Trunc(usize),
    TruncBy(usize),
    Extend(usize, u8),
    /// the uncompressed P-256 point (0x04 || X || Y) at this byte offset replaced by its negative (X, p - Y): another
    /// public key with the same ECDH output
    NegateY(usize),
}

#[derive(Clone, PartialEq, Eq, Hash, Debug, Serialize, Deserialize)]
pub enum Msg {
    /// the idx-th message successfully written by `from` in this session (handshake and transport)
    Wire(Side, usize),
    /// the most recent message written by `from`
    Last(Side),
    Garbage(usize, u8),
    Altered(Box<Msg>, Alter),
    /// literal bytes (e.g. a message of a parallel session)
    Raw(Vec<u8>),
}

#[derive(Clone, PartialEq, Eq, Hash, Debug, Serialize, Deserialize)]
pub enum Op {
    HsWrite { side: Side, plen: usize, cap: Cap },
    HsRead { side: Side, msg: Msg, cap: Cap },
    SetPsk { side: Side, loc: usize, klen: usize },
    /// set_psk(loc, the honest psk of that location with bit `bit` flipped): a psk the peer does NOT hold.
    /// The abstract model does not follow this op (its later expectations stay those of the honest session);
    /// only checks that judge real outcomes directly (C08) use it.
    SetPskAlt { side: Side, loc: usize, bit: u16 },
    ToTransport { side: Side },
    ToStateless { side: Side },
    /// HandshakeState::dangerously_get_raw_split (feature risky-raw-split)
    RawSplit { side: Side },
    /// the same conversions through the public `TryFrom<HandshakeState>` impls
    TryIntoTransport { side: Side },
    TryIntoStateless { side: Side },
    /// stateful transport write / read
    TWrite { side: Side, plen: usize, cap: Cap },
    TRead { side: Side, msg: Msg, cap: Cap },
    SetRecvNonce { side: Side, n: u64 },
    /// hook: TransportState::verif_set_sending_nonce
    SetSendNonce { side: Side, n: u64 },
    RekeyOut { side: Side },
    RekeyIn { side: Side },
    /// rekey_manually(initiator key id, responder key id)
    RekeyManual { side: Side, i: Option<u8>, r: Option<u8> },
    RekeyInitManual { side: Side, k: u8 },
    RekeyRespManual { side: Side, k: u8 },
    SWrite { side: Side, nonce: u64, plen: usize, cap: Cap },
    SRead { side: Side, nonce: u64, msg: Msg, cap: Cap },
    /// format!("{:?}") of whatever object the side holds (HandshakeState, TransportState and
    /// StatelessTransportState implement Debug): an observation that must not change or use anything
    DebugFmt { side: Side },
}

impl Op {
    pub fn side(&self) -> Side {
        match self {
            Op::HsWrite { side, .. }
            | Op::HsRead { side, .. }
            | Op::SetPsk { side, .. }
            | Op::SetPskAlt { side, .. }
            | Op::ToTransport { side }
            | Op::ToStateless { side }
            | Op::RawSplit { side }
            | Op::TryIntoTransport { side }
            | Op::TryIntoStateless { side }
            | Op::TWrite { side, .. }
            | Op::TRead { side, .. }
            | Op::SetRecvNonce { side, .. }
            | Op::SetSendNonce { side, .. }
            | Op::RekeyOut { side }
            | Op::RekeyIn { side }
            | Op::RekeyManual { side, .. }
            | Op::RekeyInitManual { side, .. }
            | Op::RekeyRespManual { side, .. }
            | Op::SWrite { side, .. }
            | Op::DebugFmt { side }
            | Op::SRead { side, .. } => *side,
        }
    }
}

pub fn manual_key(id: u8) -> [u8; 32] {
    let mut k = [0u8; 32];
    for (i, b) in k.iter_mut().enumerate() {
        *b = 0x55 ^ id.wrapping_mul(41) ^ (i as u8);
    }
    k
}

pub fn payload_bytes(len: usize, tag: u8) -> Vec<u8> {
    (0..len).map(|i| 0x40u8.wrapping_add(tag).wrapping_add((i as u8).wrapping_mul(13)) ^ ((i >> 8) as u8)).collect()
}

// ---------------------------------------------------------------------------------------------
// outcomes

#[derive(Clone, PartialEq, Eq, Hash, Debug, Serialize, Deserialize, PartialOrd, Ord)]
pub enum EClass {
    Input,
    Decrypt,
    Dh,
    NotTurnToWrite,
    NotTurnToRead,
    AlreadyFinished,
    NotFinished,
    OneWay,
    Exhausted,
    MissingPsk,
    MissingKey,
    Other(String),
}

pub fn classify(e: &snow::Error) -> EClass {
    use snow::error::{Error as E, StateProblem as S};
    match e {
        E::Input => EClass::Input,
        E::Decrypt => EClass::Decrypt,
        E::Dh => EClass::Dh,
        E::State(S::NotTurnToWrite) => EClass::NotTurnToWrite,
        E::State(S::NotTurnToRead) => EClass::NotTurnToRead,
        E::State(S::HandshakeAlreadyFinished) => EClass::AlreadyFinished,
        E::State(S::HandshakeNotFinished) => EClass::NotFinished,
        E::State(S::OneWay) => EClass::OneWay,
        E::State(S::Exhausted) => EClass::Exhausted,
        E::State(S::MissingPsk) => EClass::MissingPsk,
        E::State(S::MissingKeyMaterial) => EClass::MissingKey,
        other => EClass::Other(format!("{other:?}")),
    }
}

#[derive(Clone, PartialEq, Eq, Debug)]
pub enum Real {
    /// Ok(n) and the first n bytes of the output buffer (n clipped to the buffer)
    Ok(usize, Vec<u8>),
    Err(EClass),
    Panic(String),
    /// calls that return nothing (rekeys, nonce setters)
    Unit,
}
impl Real {
    pub fn is_ok(&self) -> bool {
        matches!(self, Real::Ok(..) | Real::Unit)
    }
    pub fn short(&self) -> String {
        match self {
            Real::Ok(n, _) => format!("Ok({n})"),
            Real::Err(e) => format!("Err({e:?})"),
            Real::Panic(m) => format!("PANIC({m})"),
            Real::Unit => "()".into(),
        }
    }
}

#[derive(Clone, PartialEq, Eq, Debug)]
pub enum Expect {
    /// must succeed; expected output bytes when the model knows them
    Ok(Option<Vec<u8>>),
    /// must fail with one of these classes (empty: any error)
    Err(Vec<EClass>),
    /// the property does not say (documented don't-care); if it fails, with one of these
    Either(Option<Vec<u8>>, Vec<EClass>),
    Unit,
}

#[derive(Clone, Copy, PartialEq, Eq, Hash, Debug, Serialize, Deserialize, PartialOrd, Ord)]
pub enum Cat {
    ExpectedOkGotErr,
    ExpectedErrGotOk,
    WrongErrClass,
    OutBytes,
    OutLen,
    /// public getter differs from the model
    GetterTurn,
    GetterFinished,
    GetterInitiator,
    GetterHash,
    GetterRemoteStatic,
    GetterNonce,
    GetterPayloadEncrypted,
    /// a public getter changed across a call that returned Err
    NoOp,
    Panic,
    /// bytes beyond the returned length were modified
    Overrun,
    /// a write containing `e` drew no bytes from the RNG / the ephemeral is not the public key of the drawn bytes
    RngNotFresh,
    EphemeralMismatch,
    /// crypto layer: message bytes differ from refnoise
    WireBytes,
    /// crypto layer: acceptance decision differs from refnoise
    WireAccept,
}

#[derive(Clone, PartialEq, Eq, Debug)]
pub struct Mismatch {
    pub cat: Cat,
    pub step: usize,
    pub detail: String,
}

#[derive(Clone, PartialEq, Eq, Debug, Default)]
pub struct Getters {
    pub phase: u8, // 0 hs, 1 transport, 2 stateless, 3 gone
    pub my_turn: bool,
    pub finished: bool,
    pub initiator: bool,
    pub hash: Vec<u8>,
    pub rs: Option<Vec<u8>>,
    pub send_n: u64,
    pub recv_n: u64,
    pub fp: Vec<u8>,
}

impl Getters {
    /// the part a failed call must leave untouched (public getters only)
    fn public(&self) -> (u8, bool, bool, bool, &Vec<u8>, &Option<Vec<u8>>, u64, u64) {
        (self.phase, self.my_turn, self.finished, self.initiator, &self.hash, &self.rs, self.send_n, self.recv_n)
    }
}

// ---------------------------------------------------------------------------------------------
// abstract model

#[derive(Clone, PartialEq, Eq, Hash, Debug, PartialOrd, Ord)]
pub enum KeyTerm {
    /// Split() output of the handshake with this transcript id, direction 0 = i->r, 1 = r->i
    Base(u64, u8),
    Rekey(Box<KeyTerm>),
    Manual(u8),
}

#[derive(Clone, PartialEq, Eq, Hash, Debug)]
pub enum WireMeta {
    Hs { pos: usize, pre_tid: u64, post_tid: u64, plen: usize },
    T { dir: u8, key: KeyTerm, nonce: u64, plen: usize },
}

#[derive(Clone, Debug)]
pub struct Wire {
    pub bytes: Vec<u8>,
    pub payload: Vec<u8>,
    pub meta: WireMeta,
}

#[derive(Clone, PartialEq, Eq, Hash, Debug)]
pub enum APhase {
    Hs,
    T,
    S,
    Gone,
}

#[derive(Clone, PartialEq, Eq, Hash, Debug)]
pub struct AEnd {
    pub phase: APhase,
    pub pos: usize,
    pub tid: u64,
    pub psk_set: [bool; 10],
    /// transport: key term and nonce per direction (0 = i->r, 1 = r->i)
    pub keys: [Option<KeyTerm>; 2],
    pub n: [u64; 2],
    /// remote static as the model knows it
    pub rs: Option<Vec<u8>>,
}

fn mix(a: u64, b: u64) -> u64 {
    let mut x = a ^ b.wrapping_mul(0x9e37_79b9_7f4a_7c15);
    x ^= x >> 32;
    x = x.wrapping_mul(0xd6e8_feb8_6659_fd93);
    x ^= x >> 32;
    x.wrapping_add(0x1234_5678_9abc_def1)
}

pub enum RealEnd {
    Hs(Box<HandshakeState>),
    T(Box<TransportState>),
    S(Box<StatelessTransportState>),
    Gone,
}

pub struct Exec {
    pub cfg: Config,
    pub proto: Proto,
    pub real: [RealEnd; 2],
    pub abs: [AEnd; 2],
    /// crypto layer (None once the handshake object is converted; transport keys live in `rkeys`)
    pub rhs: [Option<rs::HandshakeState>; 2],
    /// crypto layer transport cipher states per endpoint: (i->r, r->i)
    pub rts: [Option<(rs::CipherState, rs::CipherState)>; 2],
    pub logs: [Log; 2],
    pub wires: [Vec<Wire>; 2],
    pub mism: Vec<Mismatch>,
    pub steps: Vec<StepRecord>,
    /// set when real and model disagreed on Ok/Err: later steps are no longer judged
    pub desync: bool,
    pub uid: u64,
    pub build_err: Option<String>,
    /// canary-checked output buffers
    pub check_overrun: bool,
    pub keep_err_buf: bool,
}

#[derive(Clone, Debug)]
pub struct StepRecord {
    pub op: Op,
    pub real: Real,
    pub expect: Expect,
    pub rng_drawn: usize,
    pub rng_from: usize,
    pub cipher_from: [usize; 2],
    pub msg_len: usize,
    pub cap: usize,
    /// the call failed and yet modified the caller's output buffer
    pub buf_touched_on_err: bool,
    /// contents of the output buffer after a failed call (only kept when `keep_err_buf`)
    pub err_buf: Option<Vec<u8>>,
}

pub fn build_real(cfg: &Config, side: Side, log: &Log) -> Result<HandshakeState, snow::Error> {
    let i = side.idx();
    let mut params: NoiseParams = cfg.parse_name[i].as_ref().unwrap_or(&cfg.name).parse()?;
    if let Some(n) = &cfg.hashed_name[i] {
        params.name = n.clone();
    }
    let rng = match &cfg.eph[i] {
        Eph::Fixed(_) => RngMode::Scripted(0x5eed_0000 + i as u64),
        Eph::Scripted(s) => RngMode::Scripted(*s),
        Eph::Os => RngMode::Os,
    };
    let res = SeamResolver::boxed(cfg.backend[i], rng, cfg.record, log.clone());
    let mut b = Builder::with_resolver(params, res).prologue(&cfg.prologue[i])?;
    if let Some(s) = &cfg.s_priv[i] {
        b = b.local_private_key(s)?;
    }
    if let Some(r) = &cfg.rs_pub[i] {
        b = b.remote_public_key(r)?;
    }
    if let Eph::Fixed(e) = &cfg.eph[i] {
        b = b.fixed_ephemeral_key_for_testing_only(e);
    }
    for (k, p) in cfg.psks[i].iter().enumerate() {
        if let Some(p) = p {
            b = b.psk(k as u8, p)?;
        }
    }
    if side.is_init() {
        b.build_initiator()
    } else {
        b.build_responder()
    }
}

pub fn panic_msg(p: Box<dyn std::any::Any + Send>) -> String {
    let m = if let Some(s) = p.downcast_ref::<&str>() {
        (*s).to_string()
    } else if let Some(s) = p.downcast_ref::<String>() {
        s.clone()
    } else {
        "non-string panic".into()
    };
    // the file the panic came from (no line number: signatures must survive unrelated edits)
    let file = crate::THREAD_PANIC_FILE.with(|c| c.borrow().clone());
    let file = file.rsplit("/repo/").next().unwrap_or(&file).to_string();
    let short: String = m.chars().take(90).collect();
    format!("{file}: {short}")
}

const CANARY: u8 = 0xC9;

/// Does a canary-filled output buffer hold data after a failed call? Wiping it (one constant byte over any part of
/// it) is not data.
fn wrote_data(buf: &[u8]) -> bool {
    let mut other = buf.iter().filter(|b| **b != CANARY);
    match other.next() {
        None => false,
        Some(first) => other.any(|b| b != first),
    }
}

impl Exec {
    pub fn new(cfg: &Config) -> Exec {
        let proto = cfg.proto();
        let logs = [Log::new(), Log::new()];
        let mut build_err = None;
        let mut mk = |side: Side| match catch_unwind(AssertUnwindSafe(|| build_real(cfg, side, &logs[side.idx()]))) {
            Ok(Ok(h)) => RealEnd::Hs(Box::new(h)),
            Ok(Err(e)) => {
                build_err = Some(format!("{side:?}: build failed: {e:?}"));
                RealEnd::Gone
            },
            Err(p) => {
                build_err = Some(format!("{side:?}: build panicked: {}", panic_msg(p)));
                RealEnd::Gone
            },
        };
        let real = [mk(Side::I), mk(Side::R)];
        let tid0 = 0xabcd;
        let aend = |side: Side| {
            let i = side.idx();
            let mut psk_set = [false; 10];
            for (k, p) in cfg.psks[i].iter().enumerate() {
                psk_set[k] = p.is_some();
            }
            AEnd { phase: APhase::Hs, pos: 0, tid: tid0, psk_set, keys: [None, None], n: [0, 0], rs: cfg.rs_pub[i].clone() }
        };
        let rhs = |side: Side| {
            if !cfg.crypto_oracle {
                return None;
            }
            let i = side.idx();
            rs::HandshakeState::new(&proto, side.is_init(), &cfg.prologue[i], cfg.s_priv[i].as_deref(), cfg.rs_pub[i].as_deref(), &cfg.psks[i]).ok()
        };
        Exec {
            cfg: cfg.clone(),
            proto: proto.clone(),
            real,
            abs: [aend(Side::I), aend(Side::R)],
            rhs: [rhs(Side::I), rhs(Side::R)],
            rts: [None, None],
            logs,
            wires: [vec![], vec![]],
            mism: vec![],
            steps: vec![],
            desync: false,
            uid: 1,
            build_err,
            check_overrun: true,
            keep_err_buf: false,
        }
    }

    pub fn run(cfg: &Config, ops: &[Op]) -> Exec {
        let mut e = Exec::new(cfg);
        for op in ops {
            e.step(op);
        }
        e
    }

    fn n_msgs(&self) -> usize {
        self.proto.n_msgs()
    }
    fn oneway(&self) -> bool {
        self.proto.pattern.is_oneway()
    }

    pub fn getters(&self, side: Side) -> Getters {
        match &self.real[side.idx()] {
            RealEnd::Hs(h) => Getters {
                phase: 0,
                my_turn: h.is_my_turn(),
                finished: h.is_handshake_finished(),
                initiator: h.is_initiator(),
                hash: h.get_handshake_hash().to_vec(),
                rs: h.get_remote_static().map(<[u8]>::to_vec),
                send_n: 0,
                recv_n: 0,
                fp: h.verif_fingerprint(),
            },
            RealEnd::T(t) => Getters {
                phase: 1,
                initiator: t.is_initiator(),
                rs: t.get_remote_static().map(<[u8]>::to_vec),
                send_n: t.sending_nonce(),
                recv_n: t.receiving_nonce(),
                fp: t.verif_fingerprint(),
                ..Default::default()
            },
            RealEnd::S(t) => Getters { phase: 2, initiator: t.is_initiator(), rs: t.get_remote_static().map(<[u8]>::to_vec), fp: t.verif_fingerprint(), ..Default::default() },
            RealEnd::Gone => Getters { phase: 3, ..Default::default() },
        }
    }

    pub fn resolve_msg(&self, m: &Msg) -> (Vec<u8>, Option<(Side, usize)>) {
        match m {
            Msg::Wire(s, i) => match self.wires[s.idx()].get(*i) {
                Some(w) => (w.bytes.clone(), Some((*s, *i))),
                None => (vec![], None),
            },
            Msg::Last(s) => match self.wires[s.idx()].len().checked_sub(1) {
                Some(i) => (self.wires[s.idx()][i].bytes.clone(), Some((*s, i))),
                None => (vec![], None),
            },
            Msg::Raw(b) => (b.clone(), None),
            Msg::Garbage(len, fill) => ((0..*len).map(|i| fill.wrapping_add((i as u8).wrapping_mul(5))).collect(), None),
            Msg::Altered(base, alt) => {
                let (mut b, prov) = self.resolve_msg(base);
                let orig = b.clone();
                match alt {
                    Alter::FlipBit(k) => {
                        if !b.is_empty() {
                            let k = k % (b.len() * 8);
                            b[k / 8] ^= 1 << (k % 8);
                        }
                    },
                    Alter::FlipLast => {
                        if let Some(l) = b.last_mut() {
                            *l ^= 1;
                        }
                    },
                    Alter::Trunc(n) => b.truncate(*n),
                    Alter::TruncBy(n) => {
                        let l = b.len().saturating_sub(*n);
                        b.truncate(l);
                    },
                    Alter::Extend(n, f) => b.extend(std::iter::repeat(*f).take(*n)),
                    Alter::NegateY(off) => {
                        if b.len() >= off + 65 && b[*off] == 4 {
                            // p = 2^256 - 2^224 + 2^192 + 2^96 - 1
                            const P: [u8; 32] = [0xff, 0xff, 0xff, 0xff, 0, 0, 0, 1, 0, 0, 0, 0, 0, 0, 0, 0, 0, 0, 0, 0, 0xff, 0xff, 0xff, 0xff, 0xff, 0xff, 0xff, 0xff, 0xff, 0xff, 0xff, 0xff];
                            let y = &mut b[off + 33..off + 65];
                            let mut borrow = 0i16;
                            for i in (0..32).rev() {
                                let d = i16::from(P[i]) - i16::from(y[i]) - borrow;
                                if d < 0 {
                                    y[i] = (d + 256) as u8;
                                    borrow = 1;
                                } else {
                                    y[i] = d as u8;
                                    borrow = 0;
                                }
                            }
                        }
                    },
                }
                let prov = if b == orig { prov } else { None };
                (b, prov)
            },
        }
    }

    fn cap_of(cap: &Cap, need: usize) -> usize {
        match cap {
            Cap::Exact(n) => *n,
            Cap::NeedPlus(k) => (need as isize + *k).max(0) as usize,
            Cap::Roomy => (need + 64).max(128),
        }
    }

    fn push(&mut self, cat: Cat, detail: String) {
        let step = self.steps.len();
        self.mism.push(Mismatch { cat, step, detail });
    }

    /// tokens of message `pos` and whether `side`'s psks for it are all set
    fn psk_missing(&self, side: Side, pos: usize) -> bool {
        self.proto.pattern.msgs[pos].iter().any(|t| matches!(t, Tok::Psk(n) if !self.abs[side.idx()].psk_set[usize::from(*n)]))
    }

    /// Execute one operation on the real endpoint and on the models; record mismatches.
    pub fn step(&mut self, op: &Op) {
        let side = op.side();
        let i = side.idx();
        let pre = self.getters(side);
        let rng0 = self.logs[i].rng_len();
        let cipher_from = [self.logs[0].cipher_len(), self.logs[1].cipher_len()];
        let mut rec = StepRecord { op: op.clone(), real: Real::Unit, expect: Expect::Unit, rng_drawn: 0, rng_from: rng0, cipher_from, msg_len: 0, cap: 0, buf_touched_on_err: false, err_buf: None };

        // phase applicability: an op on an endpoint in the wrong phase cannot be issued (the type
        // system forbids it); it is skipped and recorded as such.
        if let Op::DebugFmt { .. } = op {
            let r = catch_unwind(AssertUnwindSafe(|| match &self.real[i] {
                RealEnd::Hs(h) => format!("{h:?}").len(),
                RealEnd::T(t) => format!("{t:?}").len(),
                RealEnd::S(t) => format!("{t:?}").len(),
                RealEnd::Gone => 0,
            }));
            rec.expect = Expect::Unit;
            rec.real = match r {
                Ok(_) => Real::Unit,
                Err(p) => {
                    let m = panic_msg(p);
                    self.push(Cat::Panic, format!("{op:?}: {m}"));
                    Real::Panic(m)
                },
            };
            let post = self.getters(side);
            if pre.public() != post.public() {
                self.push(Cat::NoOp, format!("{op:?} changed public getters: {:?} -> {:?}", pre.public(), post.public()));
            }
            self.steps.push(rec);
            return;
        }
        let phase_ok = matches!(
            (&self.real[i], op),
            (RealEnd::Hs(_), Op::HsWrite { .. } | Op::HsRead { .. } | Op::SetPsk { .. } | Op::SetPskAlt { .. } | Op::ToTransport { .. } | Op::ToStateless { .. } | Op::RawSplit { .. } | Op::TryIntoTransport { .. } | Op::TryIntoStateless { .. })
                | (
                    RealEnd::T(_),
                    Op::TWrite { .. }
                        | Op::TRead { .. }
                        | Op::SetRecvNonce { .. }
                        | Op::SetSendNonce { .. }
                        | Op::RekeyOut { .. }
                        | Op::RekeyIn { .. }
                        | Op::RekeyManual { .. }
                        | Op::RekeyInitManual { .. }
                        | Op::RekeyRespManual { .. }
                )
                | (
                    RealEnd::S(_),
                    Op::SWrite { .. }
                        | Op::SRead { .. }
                        | Op::RekeyOut { .. }
                        | Op::RekeyIn { .. }
                        | Op::RekeyManual { .. }
                        | Op::RekeyInitManual { .. }
                        | Op::RekeyRespManual { .. }
                )
        );
        if !phase_ok {
            rec.real = Real::Err(EClass::Other("not-applicable-in-this-phase".into()));
            rec.expect = Expect::Err(vec![]);
            self.steps.push(rec);
            return;
        }

        match op {
            Op::DebugFmt { .. } => unreachable!("handled above"),
            Op::HsWrite { plen, cap, .. } => self.do_hs_write(side, *plen, cap, &mut rec),
            Op::HsRead { msg, cap, .. } => self.do_hs_read(side, msg, cap, &mut rec),
            Op::SetPsk { loc, klen, .. } => self.do_set_psk(side, *loc, *klen, &mut rec),
            Op::SetPskAlt { loc, bit, .. } => {
                let mut key = psk_value_for(&self.cfg, *loc);
                key[usize::from(*bit / 8) % 32] ^= 1 << (*bit % 8);
                let RealEnd::Hs(h) = &mut self.real[i] else { unreachable!() };
                rec.real = match catch_unwind(AssertUnwindSafe(|| h.set_psk(*loc, &key))) {
                    Ok(Ok(())) => Real::Ok(0, vec![]),
                    Ok(Err(e)) => Real::Err(classify(&e)),
                    Err(p) => Real::Panic(panic_msg(p)),
                };
                rec.expect = Expect::Ok(None);
                if rec.real.is_ok() {
                    self.abs[i].psk_set[*loc] = true;
                    if let Some(m) = &mut self.rhs[i] {
                        m.psks[*loc] = Some(key);
                    }
                }
            },
            Op::RawSplit { .. } => {
                let r = {
                    let RealEnd::Hs(h) = &mut self.real[i] else { unreachable!() };
                    catch_unwind(AssertUnwindSafe(|| h.dangerously_get_raw_split()))
                };
                rec.expect = Expect::Ok(None);
                match r {
                    Ok((k1, k2)) => {
                        let mut out = k1.to_vec();
                        out.extend_from_slice(&k2);
                        // crypto layer: Split() of the reference at this point of the handshake
                        if let (Some(m), false) = (&self.rhs[i], self.desync) {
                            let (c1, c2) = m.ss.split();
                            if c1.k != Some(k1) || c2.k != Some(k2) {
                                self.push(Cat::WireBytes, format!("RawSplit {side:?}: dangerously_get_raw_split() differs from the reference Split() after {} messages", self.abs[i].pos));
                            }
                        }
                        rec.real = Real::Ok(64, out);
                    },
                    Err(p) => rec.real = Real::Panic(panic_msg(p)),
                }
            },
            Op::ToTransport { .. } => self.do_convert(side, false, false, &mut rec),
            Op::ToStateless { .. } => self.do_convert(side, true, false, &mut rec),
            Op::TryIntoTransport { .. } => self.do_convert(side, false, true, &mut rec),
            Op::TryIntoStateless { .. } => self.do_convert(side, true, true, &mut rec),
            Op::TWrite { plen, cap, .. } => self.do_t_write(side, None, *plen, cap, &mut rec),
            Op::SWrite { nonce, plen, cap, .. } => self.do_t_write(side, Some(*nonce), *plen, cap, &mut rec),
            Op::TRead { msg, cap, .. } => self.do_t_read(side, None, msg, cap, &mut rec),
            Op::SRead { nonce, msg, cap, .. } => self.do_t_read(side, Some(*nonce), msg, cap, &mut rec),
            Op::SetRecvNonce { n, .. } => {
                if let RealEnd::T(t) = &mut self.real[i] {
                    t.set_receiving_nonce(*n);
                }
                let d = if side.is_init() { 1 } else { 0 };
                self.abs[i].n[d] = *n;
                if let Some(ts) = &mut self.rts[i] {
                    if d == 0 {
                        ts.0.n = *n;
                    } else {
                        ts.1.n = *n;
                    }
                }
            },
            Op::SetSendNonce { n, .. } => {
                if let RealEnd::T(t) = &mut self.real[i] {
                    t.verif_set_sending_nonce(*n);
                }
                let d = if side.is_init() { 0 } else { 1 };
                self.abs[i].n[d] = *n;
                if let Some(ts) = &mut self.rts[i] {
                    if d == 0 {
                        ts.0.n = *n;
                    } else {
                        ts.1.n = *n;
                    }
                }
            },
            Op::RekeyOut { .. } | Op::RekeyIn { .. } => {
                let out = matches!(op, Op::RekeyOut { .. });
                let r = catch_unwind(AssertUnwindSafe(|| match &mut self.real[i] {
                    RealEnd::T(t) => {
                        if out {
                            t.rekey_outgoing()
                        } else {
                            t.rekey_incoming()
                        }
                    },
                    RealEnd::S(t) => {
                        if out {
                            t.rekey_outgoing()
                        } else {
                            t.rekey_incoming()
                        }
                    },
                    _ => {},
                }));
                if let Err(p) = r {
                    rec.real = Real::Panic(panic_msg(p));
                    self.push(Cat::Panic, format!("{op:?}: {}", rec.real.short()));
                }
                let d = usize::from(side.is_init() != out);
                let a = &mut self.abs[i];
                a.keys[d] = a.keys[d].take().map(|k| KeyTerm::Rekey(Box::new(k)));
                if let Some(ts) = &mut self.rts[i] {
                    if d == 0 {
                        ts.0.rekey();
                    } else {
                        ts.1.rekey();
                    }
                }
            },
            Op::RekeyManual { .. } | Op::RekeyInitManual { .. } | Op::RekeyRespManual { .. } => {
                let (ki, kr) = match op {
                    Op::RekeyManual { i, r, .. } => (*i, *r),
                    Op::RekeyInitManual { k, .. } => (Some(*k), None),
                    Op::RekeyRespManual { k, .. } => (None, Some(*k)),
                    _ => unreachable!(),
                };
                let (bi, br) = (ki.map(manual_key), kr.map(manual_key));
                let r = catch_unwind(AssertUnwindSafe(|| match (&mut self.real[i], op) {
                    (RealEnd::T(t), Op::RekeyManual { .. }) => t.rekey_manually(bi.as_ref(), br.as_ref()),
                    (RealEnd::T(t), Op::RekeyInitManual { .. }) => t.rekey_initiator_manually(&bi.unwrap()),
                    (RealEnd::T(t), Op::RekeyRespManual { .. }) => t.rekey_responder_manually(&br.unwrap()),
                    (RealEnd::S(t), Op::RekeyManual { .. }) => t.rekey_manually(bi.as_ref(), br.as_ref()),
                    (RealEnd::S(t), Op::RekeyInitManual { .. }) => t.rekey_initiator_manually(&bi.unwrap()),
                    (RealEnd::S(t), Op::RekeyRespManual { .. }) => t.rekey_responder_manually(&br.unwrap()),
                    _ => {},
                }));
                if let Err(p) = r {
                    rec.real = Real::Panic(panic_msg(p));
                    self.push(Cat::Panic, format!("{op:?}: {}", rec.real.short()));
                }
                let a = &mut self.abs[i];
                if let Some(k) = ki {
                    a.keys[0] = Some(KeyTerm::Manual(k));
                }
                if let Some(k) = kr {
                    a.keys[1] = Some(KeyTerm::Manual(k));
                }
                if let Some(ts) = &mut self.rts[i] {
                    if let Some(k) = bi {
                        ts.0.k = Some(k);
                    }
                    if let Some(k) = br {
                        ts.1.k = Some(k);
                    }
                }
            },
        }

        rec.rng_drawn = self.logs[i].rng_len() - rng0;
        // generic judgement of result vs expectation
        if !self.desync {
            self.judge(&rec);
        }
        // a failed call must not change any public getter
        let post = self.getters(side);
        let failed = matches!(rec.real, Real::Err(_) | Real::Panic(_));
        let conversion = matches!(op, Op::ToTransport { .. } | Op::ToStateless { .. } | Op::TryIntoTransport { .. } | Op::TryIntoStateless { .. });
        if failed && !conversion && pre.public() != post.public() {
            self.push(Cat::NoOp, format!("{op:?} returned {} but public getters changed: {:?} -> {:?}", rec.real.short(), pre.public(), post.public()));
        }
        if !self.desync {
            self.compare_getters(side, &post);
        }
        self.steps.push(rec);
    }

    fn judge(&mut self, rec: &StepRecord) {
        let op = &rec.op;
        match (&rec.expect, &rec.real) {
            (_, Real::Panic(m)) => {
                self.push(Cat::Panic, format!("{op:?} panicked: {m}"));
                self.desync = true;
            },
            (Expect::Unit, _) | (_, Real::Unit) => {},
            (Expect::Ok(want), Real::Ok(n, got)) | (Expect::Either(want, _), Real::Ok(n, got)) => {
                if let Some(w) = want {
                    if *n != w.len() {
                        self.push(Cat::OutLen, format!("{op:?}: returned length {n}, expected {}", w.len()));
                    } else if got != w {
                        self.push(Cat::OutBytes, format!("{op:?}: output bytes differ from the expected {} bytes", w.len()));
                    }
                }
            },
            (Expect::Ok(_), Real::Err(e)) => {
                self.push(Cat::ExpectedOkGotErr, format!("{op:?}: expected Ok, got Err({e:?})"));
                self.desync = true;
            },
            (Expect::Err(classes), Real::Ok(n, _)) => {
                self.push(Cat::ExpectedErrGotOk, format!("{op:?}: expected Err{classes:?}, got Ok({n})"));
                self.desync = true;
            },
            (Expect::Err(classes), Real::Err(e)) | (Expect::Either(_, classes), Real::Err(e)) => {
                if !classes.is_empty() && !classes.contains(e) {
                    self.push(Cat::WrongErrClass, format!("{op:?}: got Err({e:?}), documented: {classes:?}"));
                }
            },
        }
    }

    fn compare_getters(&mut self, side: Side, g: &Getters) {
        let i = side.idx();
        let a = self.abs[i].clone();
        let phase = match a.phase {
            APhase::Hs => 0,
            APhase::T => 1,
            APhase::S => 2,
            APhase::Gone => 3,
        };
        if phase != g.phase {
            return; // only after a desync
        }
        if g.phase != 3 && g.initiator != side.is_init() {
            self.push(Cat::GetterInitiator, format!("{side:?}: is_initiator() = {}", g.initiator));
        }
        match a.phase {
            APhase::Hs => {
                let turn = (a.pos % 2 == 0) == side.is_init();
                if g.my_turn != turn {
                    self.push(Cat::GetterTurn, format!("{side:?}: is_my_turn() = {} but {} messages were processed", g.my_turn, a.pos));
                }
                let fin = a.pos == self.n_msgs();
                if g.finished != fin {
                    self.push(Cat::GetterFinished, format!("{side:?}: is_handshake_finished() = {} at position {}/{}", g.finished, a.pos, self.n_msgs()));
                }
                if let Some(r) = &self.rhs[i] {
                    if r.ss.h != g.hash {
                        self.push(Cat::GetterHash, format!("{side:?}: get_handshake_hash() differs from the reference after {} messages", a.pos));
                    }
                }
            },
            APhase::T => {
                let (s, r) = if side.is_init() { (a.n[0], a.n[1]) } else { (a.n[1], a.n[0]) };
                if g.send_n != s || g.recv_n != r {
                    self.push(Cat::GetterNonce, format!("{side:?}: nonces (send {}, recv {}) but the model says ({s}, {r})", g.send_n, g.recv_n));
                }
            },
            _ => {},
        }
        if a.phase != APhase::Gone && g.rs != a.rs {
            self.push(
                Cat::GetterRemoteStatic,
                format!("{side:?}: get_remote_static() = {:?} ({} bytes), model {:?}", g.rs.as_ref().map(hex::encode), g.rs.as_ref().map_or(0, Vec::len), a.rs.as_ref().map(hex::encode)),
            );
        }
    }

    // ---- handshake write -------------------------------------------------------------------
    fn do_hs_write(&mut self, side: Side, plen: usize, cap: &Cap, rec: &mut StepRecord) {
        let i = side.idx();
        let a = self.abs[i].clone();
        let payload = payload_bytes(plen, a.pos as u8);
        let n_msgs = self.n_msgs();
        let my_turn = (a.pos % 2 == 0) == side.is_init();
        let finished = a.pos >= n_msgs;
        // abstract prediction of the length
        let mut errs: Vec<EClass> = vec![];
        if !my_turn {
            errs.push(EClass::NotTurnToWrite);
        }
        if finished {
            // snow reports NotTurnToWrite when it is also not our turn; the property fixes no precedence
            errs.push(EClass::AlreadyFinished);
        }
        let mut need = 0usize;
        let mut payload_enc = false;
        let mut slack = false;
        if errs.is_empty() {
            let ov = rs::overheads(&self.proto)[a.pos];
            need = ov + plen;
            // is the payload of this message encrypted? overhead includes the tag iff so
            payload_enc = self.payload_encrypted_at(a.pos);
            if self.psk_missing(side, a.pos) {
                errs.push(EClass::MissingPsk);
            }
            slack = !payload_enc;
        }
        let capn = Self::cap_of(cap, need);
        rec.cap = capn;
        if my_turn && !finished {
            if need > 65535 {
                errs.push(EClass::Input);
            }
            if capn < need {
                errs.push(EClass::Input);
            }
        }
        errs.dedup();
        // real call
        let mut buf = vec![CANARY; capn];
        let real = {
            let RealEnd::Hs(h) = &mut self.real[i] else { unreachable!() };
            match catch_unwind(AssertUnwindSafe(|| h.write_message(&payload, &mut buf))) {
                Ok(Ok(n)) => Real::Ok(n, buf[..n.min(capn)].to_vec()),
                Ok(Err(e)) => Real::Err(classify(&e)),
                Err(p) => Real::Panic(panic_msg(p)),
            }
        };
        if !real.is_ok() && wrote_data(&buf) {
            rec.buf_touched_on_err = true;
            if self.keep_err_buf {
                rec.err_buf = Some(buf.clone());
            }
        }
        if let Real::Ok(n, _) = &real {
            rec.msg_len = *n;
            if self.check_overrun && buf[(*n).min(capn)..].iter().any(|b| *b != CANARY) {
                self.push(Cat::Overrun, format!("HsWrite {side:?}: bytes beyond the returned length {n} were modified"));
            }
        }
        // crypto layer: expected bytes
        let has_e = !finished && my_turn && self.proto.pattern.msgs[a.pos].contains(&Tok::E);
        let mut want_bytes: Option<Vec<u8>> = None;
        let mut want_enc = None;
        let mut model_after: Option<rs::HandshakeState> = None;
        if errs.is_empty() && self.rhs[i].is_some() && !self.desync {
            let e_priv: Option<Vec<u8>> = match &self.cfg.eph[i] {
                Eph::Fixed(e) => Some(e.clone()),
                Eph::Os => None,
                Eph::Scripted(_) => {
                    // whatever this very call drew
                    let g = self.logs[i].0.lock().unwrap();
                    let from = rec.rng_from.min(g.rng.len());
                    g.rng[from..].last().cloned()
                },
            };
            let mut m = self.rhs[i].clone().unwrap();
            if !has_e || e_priv.is_some() {
                if let Ok(out) = m.write_message(&payload, e_priv.as_deref()) {
                    want_enc = Some(out.payload_encrypted);
                    want_bytes = Some(out.msg);
                    model_after = Some(m);
                }
            }
        }
        rec.expect = if !errs.is_empty() {
            Expect::Err(errs)
        } else if slack && capn < need + 16 {
            // snow demands 16 spare bytes even for a clear payload; the properties do not require
            // success with an exactly fitting buffer, nor forbid it
            Expect::Either(want_bytes.clone(), vec![EClass::Input])
        } else {
            Expect::Ok(want_bytes.clone())
        };
        // commit on real success
        if let (Real::Ok(n, bytes), true) = (&real, !matches!(rec.expect, Expect::Err(_))) {
            // freshness of the ephemeral
            if has_e {
                if let Eph::Scripted(_) = &self.cfg.eph[i] {
                    let g = self.logs[i].0.lock().unwrap();
                    let from = rec.rng_from.min(g.rng.len());
                    let draws: Vec<Vec<u8>> = g.rng[from..].to_vec();
                    drop(g);
                    if draws.is_empty() {
                        self.push(Cat::RngNotFresh, format!("HsWrite {side:?} msg {}: the message contains an ephemeral key but the write drew nothing from the RNG", a.pos));
                    } else if let Some(pk) = self.proto.dh.pubkey(draws.last().unwrap()) {
                        // the e field is the first public key unless a psk0 precedes (still first bytes)
                        if bytes.len() >= pk.len() && bytes[..pk.len()] != pk[..] {
                            self.push(Cat::EphemeralMismatch, format!("HsWrite {side:?} msg {}: the ephemeral in the message is not the public key of the bytes drawn during this write", a.pos));
                        }
                    }
                }
            }
            if need != 0 && *n != need {
                self.push(Cat::OutLen, format!("HsWrite {side:?} msg {}: returned {n}, the specification predicts {need}", a.pos));
            }
            if let (Some(w), false) = (&want_bytes, self.desync) {
                if w != bytes {
                    self.push(Cat::WireBytes, format!("HsWrite {side:?} msg {} of {}: bytes differ from the reference ({} vs {} bytes)", a.pos, self.cfg.name, bytes.len(), w.len()));
                }
            }
            let uid = self.uid;
            self.uid += 1;
            let post_tid = mix(a.tid, uid);
            self.wires[i].push(Wire { bytes: bytes.clone(), payload: payload.clone(), meta: WireMeta::Hs { pos: a.pos, pre_tid: a.tid, post_tid, plen } });
            let ab = &mut self.abs[i];
            ab.pos += 1;
            ab.tid = post_tid;
            if let Some(m) = model_after {
                self.rhs[i] = Some(m);
            } else {
                self.rhs[i] = None; // crypto layer lost (don't-care success without model bytes)
            }
            // was_write_payload_encrypted is sampled right after the successful write
            if let RealEnd::Hs(h) = &self.real[i] {
                let got = h.was_write_payload_encrypted();
                let want = want_enc.unwrap_or(payload_enc);
                if got != want {
                    self.push(Cat::GetterPayloadEncrypted, format!("HsWrite {side:?} msg {}: was_write_payload_encrypted() = {got}, specification: {want}", a.pos));
                }
            }
        }
        rec.real = real;
    }

    /// HasKey() when the payload of message `pos` is encrypted (pattern property).
    pub fn payload_encrypted_at(&self, pos: usize) -> bool {
        let is_psk = self.proto.pattern.has_psk();
        let mut has_key = false;
        for (k, m) in self.proto.pattern.msgs.iter().enumerate() {
            for t in m {
                match t {
                    Tok::E => {
                        if is_psk {
                            has_key = true;
                        }
                    },
                    Tok::S => {},
                    _ => has_key = true,
                }
            }
            if k == pos {
                return has_key;
            }
        }
        has_key
    }

    // ---- handshake read --------------------------------------------------------------------
    fn do_hs_read(&mut self, side: Side, msg: &Msg, cap: &Cap, rec: &mut StepRecord) {
        let i = side.idx();
        let a = self.abs[i].clone();
        let (bytes, prov) = self.resolve_msg(msg);
        rec.msg_len = bytes.len();
        let n_msgs = self.n_msgs();
        let my_turn = (a.pos % 2 == 0) == side.is_init();
        let finished = a.pos >= n_msgs;
        let mut errs: Vec<EClass> = vec![];
        if bytes.len() > 65535 {
            errs.push(EClass::Input);
        }
        if my_turn {
            errs.push(EClass::NotTurnToRead);
        }
        if finished {
            errs.push(EClass::AlreadyFinished);
        }
        let state_ok = !my_turn && !finished;
        // abstract acceptance: the genuine next message of this transcript
        let genuine = prov.and_then(|(s, k)| {
            let w = &self.wires[s.idx()][k];
            match &w.meta {
                WireMeta::Hs { pos, pre_tid, post_tid, plen } if s == side.peer() && *pos == a.pos && *pre_tid == a.tid => Some((*post_tid, *plen, w.payload.clone())),
                _ => None,
            }
        });
        let mut need = 0;
        let mut expect;
        let mut crypto_ok: Option<rs::HandshakeState> = None;
        if state_ok && bytes.len() <= 65535 {
            if self.psk_missing(side, a.pos) {
                errs.push(EClass::MissingPsk);
            }
            // crypto layer decision (also covers non-genuine deliveries)
            let mut crypto: Option<Result<Vec<u8>, rs::RefErr>> = None;
            if let (Some(m), false) = (&self.rhs[i], self.desync) {
                let mut m2 = m.clone();
                let r = m2.read_message(&bytes);
                if r.is_ok() {
                    crypto_ok = Some(m2);
                }
                crypto = Some(r);
            }
            match (&genuine, &crypto) {
                (Some((_, plen, payload)), _) => {
                    need = *plen;
                    let capn = Self::cap_of(cap, need);
                    if capn < need {
                        errs.push(EClass::Decrypt);
                        errs.push(EClass::Input);
                    }
                    expect = if errs.is_empty() { Expect::Ok(Some(payload.clone())) } else { Expect::Err(errs.clone()) };
                    if let Some(Err(e)) = &crypto {
                        if errs.is_empty() {
                            // the reference rejects a message snow itself produced: wire-level disagreement
                            self.push(Cat::WireAccept, format!("HsRead {side:?} msg {}: the reference model rejects the peer's genuine message ({e:?})", a.pos));
                        }
                    }
                },
                (None, Some(Ok(p))) => {
                    // not the genuine next message, but a conforming implementation accepts it
                    // (e.g. an alteration confined to a clear field): the specification's answer
                    need = p.len();
                    let capn = Self::cap_of(cap, need);
                    if capn < need {
                        errs.push(EClass::Decrypt);
                        errs.push(EClass::Input);
                    }
                    expect = if errs.is_empty() { Expect::Ok(Some(p.clone())) } else { Expect::Err(errs.clone()) };
                },
                (None, Some(Err(e))) => {
                    errs.push(match e {
                        rs::RefErr::Short => EClass::Input,
                        rs::RefErr::MissingPsk => EClass::MissingPsk,
                        rs::RefErr::Dh => EClass::Dh,
                        _ => EClass::Decrypt,
                    });
                    errs.push(EClass::Decrypt);
                    errs.push(EClass::Input);
                    expect = Expect::Err(errs.clone());
                },
                (None, None) => {
                    // abstract layer only: a non-genuine delivery is expected to fail, except that
                    // alterations confined to clear fields may be accepted (judged by C03, not here)
                    expect = Expect::Either(None, vec![]);
                },
            }
        } else {
            expect = Expect::Err(errs.clone());
        }
        if let Expect::Err(v) = &mut expect {
            v.sort();
            v.dedup();
        }
        let capn = Self::cap_of(cap, need);
        rec.cap = capn;
        let mut buf = vec![CANARY; capn];
        let real = {
            let RealEnd::Hs(h) = &mut self.real[i] else { unreachable!() };
            match catch_unwind(AssertUnwindSafe(|| h.read_message(&bytes, &mut buf))) {
                Ok(Ok(n)) => Real::Ok(n, buf[..n.min(capn)].to_vec()),
                Ok(Err(e)) => Real::Err(classify(&e)),
                Err(p) => Real::Panic(panic_msg(p)),
            }
        };
        if !real.is_ok() && wrote_data(&buf) {
            rec.buf_touched_on_err = true;
            if self.keep_err_buf {
                rec.err_buf = Some(buf.clone());
            }
        }
        if let Real::Ok(n, _) = &real {
            if self.check_overrun && buf[(*n).min(capn)..].iter().any(|b| *b != CANARY) {
                self.push(Cat::Overrun, format!("HsRead {side:?}: bytes beyond the returned length {n} were modified"));
            }
            if !matches!(expect, Expect::Err(_)) {
                let ab = &mut self.abs[i];
                match &genuine {
                    Some((post, _, _)) => ab.tid = *post,
                    None => {
                        let uid = self.uid;
                        self.uid += 1;
                        ab.tid = mix(ab.tid, 0xdead_0000 + uid);
                    },
                }
                ab.pos += 1;
                // remote static learnt from this message
                if let Some(k) = self.proto.pattern.remote_static_msg(side.is_init()) {
                    if k + 1 == ab.pos {
                        let peer_s = self.cfg.s_priv[side.peer().idx()].as_ref().and_then(|sk| self.proto.dh.pubkey(sk));
                        ab.rs = match (&genuine, &crypto_ok) {
                            (_, Some(m)) => m.rs.clone(),
                            (Some(_), None) => peer_s,
                            (None, None) => None,
                        };
                        if genuine.is_none() && crypto_ok.is_none() {
                            self.desync = true;
                        }
                    }
                }
                self.rhs[i] = crypto_ok;
            }
        }
        rec.expect = expect;
        rec.real = real;
    }

    fn do_set_psk(&mut self, side: Side, loc: usize, klen: usize, rec: &mut StepRecord) {
        let i = side.idx();
        let key: Vec<u8> = if klen == 32 && loc < 10 { psk_value_for(&self.cfg, loc).to_vec() } else { vec![0x77; klen] };
        let ok = klen == 32 && loc < 10;
        let real = {
            let RealEnd::Hs(h) = &mut self.real[i] else { unreachable!() };
            match catch_unwind(AssertUnwindSafe(|| h.set_psk(loc, &key))) {
                Ok(Ok(())) => Real::Ok(0, vec![]),
                Ok(Err(e)) => Real::Err(classify(&e)),
                Err(p) => Real::Panic(panic_msg(p)),
            }
        };
        rec.expect = if ok { Expect::Ok(None) } else { Expect::Err(vec![EClass::Input]) };
        if ok && real.is_ok() {
            self.abs[i].psk_set[loc] = true;
            if let Some(m) = &mut self.rhs[i] {
                m.psks[loc] = Some(key.clone().try_into().unwrap());
            }
        }
        rec.real = real;
    }

    fn do_convert(&mut self, side: Side, stateless: bool, via_try_from: bool, rec: &mut StepRecord) {
        let i = side.idx();
        let a = self.abs[i].clone();
        let fin = a.pos == self.n_msgs();
        let RealEnd::Hs(h) = std::mem::replace(&mut self.real[i], RealEnd::Gone) else { unreachable!() };
        let r = catch_unwind(AssertUnwindSafe(move || {
            use std::convert::TryFrom;
            match (stateless, via_try_from) {
                (true, false) => h.into_stateless_transport_mode().map(|t| RealEnd::S(Box::new(t))),
                (false, false) => h.into_transport_mode().map(|t| RealEnd::T(Box::new(t))),
                (true, true) => StatelessTransportState::try_from(*h).map(|t| RealEnd::S(Box::new(t))),
                (false, true) => TransportState::try_from(*h).map(|t| RealEnd::T(Box::new(t))),
            }
        }));
        rec.expect = if fin { Expect::Ok(None) } else { Expect::Err(vec![EClass::NotFinished]) };
        match r {
            Ok(Ok(t)) => {
                self.real[i] = t;
                rec.real = Real::Ok(0, vec![]);
                let ab = &mut self.abs[i];
                ab.phase = if stateless { APhase::S } else { APhase::T };
                ab.keys = [Some(KeyTerm::Base(a.tid, 0)), Some(KeyTerm::Base(a.tid, 1))];
                ab.n = [0, 0];
                if let Some(m) = &self.rhs[i] {
                    self.rts[i] = Some(m.ss.split());
                } else if self.cfg.record && !self.cfg.crypto_oracle {
                    // transport reference keyed with the keys the implementation actually installed
                    // (seen by the RecordingCipher): conformance of everything *after* Split() -
                    // nonce layout, REKEY - is then judged independently of the handshake.
                    let alg = self.proto.cipher;
                    let k = |o| self.logs[i].current_key(o);
                    if let (Some(k1), Some(k2)) = (k(1), k(2)) {
                        self.rts[i] = Some((rs::CipherState { alg, k: Some(k1), n: 0 }, rs::CipherState { alg, k: Some(k2), n: 0 }));
                    }
                }
            },
            Ok(Err(e)) => {
                rec.real = Real::Err(classify(&e));
                self.abs[i].phase = APhase::Gone;
            },
            Err(p) => {
                rec.real = Real::Panic(panic_msg(p));
                self.abs[i].phase = APhase::Gone;
            },
        }
    }

    // ---- transport -------------------------------------------------------------------------
    fn do_t_write(&mut self, side: Side, nonce: Option<u64>, plen: usize, cap: &Cap, rec: &mut StepRecord) {
        let i = side.idx();
        let d = usize::from(!side.is_init());
        let a = self.abs[i].clone();
        let n_used = nonce.unwrap_or(a.n[d]);
        let payload = payload_bytes(plen, 0x80 ^ (n_used as u8));
        let need = plen + 16;
        let capn = Self::cap_of(cap, need);
        rec.cap = capn;
        let mut errs = vec![];
        if self.oneway() && !side.is_init() {
            errs.push(EClass::OneWay);
        }
        if need > 65535 || capn < need {
            errs.push(EClass::Input);
        }
        if n_used == u64::MAX {
            errs.push(EClass::Exhausted);
        }
        let mut buf = vec![CANARY; capn];
        let real = {
            let r = match &mut self.real[i] {
                RealEnd::T(t) => catch_unwind(AssertUnwindSafe(|| t.write_message(&payload, &mut buf))),
                RealEnd::S(t) => catch_unwind(AssertUnwindSafe(|| t.write_message(n_used, &payload, &mut buf))),
                _ => unreachable!(),
            };
            match r {
                Ok(Ok(n)) => Real::Ok(n, buf[..n.min(capn)].to_vec()),
                Ok(Err(e)) => Real::Err(classify(&e)),
                Err(p) => Real::Panic(panic_msg(p)),
            }
        };
        if !real.is_ok() && wrote_data(&buf) {
            rec.buf_touched_on_err = true;
            if self.keep_err_buf {
                rec.err_buf = Some(buf.clone());
            }
        }
        let mut want = None;
        if errs.is_empty() && !self.desync {
            if let Some(ts) = &self.rts[i] {
                let cs = if d == 0 { &ts.0 } else { &ts.1 };
                if let Some(k) = cs.k {
                    want = Some(cs.alg.encrypt(&k, n_used, &[], &payload));
                }
            }
        }
        rec.expect = if errs.is_empty() { Expect::Ok(None) } else { Expect::Err(errs.clone()) };
        if let (Real::Ok(n, bytes), true) = (&real, errs.is_empty()) {
            rec.msg_len = *n;
            if self.check_overrun && buf[(*n).min(capn)..].iter().any(|b| *b != CANARY) {
                self.push(Cat::Overrun, format!("transport write {side:?}: bytes beyond the returned length {n} were modified"));
            }
            if *n != need {
                self.push(Cat::OutLen, format!("transport write {side:?}: returned {n}, expected {need}"));
            }
            if let Some(w) = &want {
                if w != bytes {
                    self.push(Cat::WireBytes, format!("transport write {side:?} nonce {n_used} key {:?}: bytes differ from the reference", a.keys[d]));
                }
            }
            self.wires[i].push(Wire { bytes: bytes.clone(), payload, meta: WireMeta::T { dir: d as u8, key: a.keys[d].clone().unwrap_or(KeyTerm::Manual(255)), nonce: n_used, plen } });
            if nonce.is_none() {
                self.abs[i].n[d] += 1;
                if let Some(ts) = &mut self.rts[i] {
                    if d == 0 {
                        ts.0.n += 1;
                    } else {
                        ts.1.n += 1;
                    }
                }
            }
        }
        rec.real = real;
    }

    fn do_t_read(&mut self, side: Side, nonce: Option<u64>, msg: &Msg, cap: &Cap, rec: &mut StepRecord) {
        let i = side.idx();
        let d = usize::from(side.is_init()); // receiving direction: initiator receives r->i (1)
        let a = self.abs[i].clone();
        let n_used = nonce.unwrap_or(a.n[d]);
        let (bytes, prov) = self.resolve_msg(msg);
        rec.msg_len = bytes.len();
        let need = bytes.len().saturating_sub(16);
        let capn = Self::cap_of(cap, need);
        rec.cap = capn;
        let mut errs = vec![];
        if bytes.len() > 65535 {
            errs.push(EClass::Input);
        }
        if self.oneway() && side.is_init() {
            errs.push(EClass::OneWay);
        }
        if bytes.len() < 16 || capn < need {
            errs.push(EClass::Decrypt);
        }
        if n_used == u64::MAX {
            errs.push(EClass::Exhausted);
        }
        let genuine = prov.and_then(|(s, k)| {
            let w = &self.wires[s.idx()][k];
            match &w.meta {
                WireMeta::T { dir, key, nonce, .. } if s == side.peer() && usize::from(*dir) == d && Some(key) == a.keys[d].as_ref() && *nonce == n_used => Some(w.payload.clone()),
                _ => None,
            }
        });
        if genuine.is_none() {
            errs.push(EClass::Decrypt);
        }
        if errs.contains(&EClass::OneWay) {
            // an out-of-phase call returns the state error (a size error may still come first)
            errs.retain(|c| matches!(c, EClass::OneWay | EClass::Input));
        }
        errs.sort();
        errs.dedup();
        let mut buf = vec![CANARY; capn];
        let real = {
            let r = match &mut self.real[i] {
                RealEnd::T(t) => catch_unwind(AssertUnwindSafe(|| t.read_message(&bytes, &mut buf))),
                RealEnd::S(t) => catch_unwind(AssertUnwindSafe(|| t.read_message(n_used, &bytes, &mut buf))),
                _ => unreachable!(),
            };
            match r {
                Ok(Ok(n)) => Real::Ok(n, buf[..n.min(capn)].to_vec()),
                Ok(Err(e)) => Real::Err(classify(&e)),
                Err(p) => Real::Panic(panic_msg(p)),
            }
        };
        if !real.is_ok() && wrote_data(&buf) {
            rec.buf_touched_on_err = true;
            if self.keep_err_buf {
                rec.err_buf = Some(buf.clone());
            }
        }
        rec.expect = if errs.is_empty() { Expect::Ok(genuine.clone()) } else { Expect::Err(errs.clone()) };
        if let (Real::Ok(n, _), true) = (&real, errs.is_empty()) {
            if self.check_overrun && buf[(*n).min(capn)..].iter().any(|b| *b != CANARY) {
                self.push(Cat::Overrun, format!("transport read {side:?}: bytes beyond the returned length {n} were modified"));
            }
            if nonce.is_none() {
                self.abs[i].n[d] += 1;
                if let Some(ts) = &mut self.rts[i] {
                    if d == 0 {
                        ts.0.n += 1;
                    } else {
                        ts.1.n += 1;
                    }
                }
            }
        }
        rec.real = real;
    }

    /// De-duplication key of the whole system state (abstract model + real fingerprints + keys).
    pub fn state_key(&self) -> Vec<u8> {
        use std::hash::{Hash, Hasher};
        let mut out = vec![];
        let mut h = std::collections::hash_map::DefaultHasher::new();
        self.abs.hash(&mut h);
        for w in &self.wires {
            for x in w {
                x.meta.hash(&mut h);
            }
            0xffu8.hash(&mut h);
        }
        self.desync.hash(&mut h);
        out.extend_from_slice(&h.finish().to_le_bytes());
        for s in SIDES {
            let g = self.getters(s);
            out.push(g.phase);
            out.extend_from_slice(&g.fp);
            out.extend_from_slice(&g.send_n.to_le_bytes());
            out.extend_from_slice(&g.recv_n.to_le_bytes());
            if self.cfg.record {
                for obj in 0..3 {
                    match self.logs[s.idx()].current_key(obj) {
                        Some(k) => out.extend_from_slice(&k),
                        None => out.push(0),
                    }
                }
            }
        }
        out
    }
}

pub fn psk_value_for(cfg: &Config, loc: usize) -> [u8; 32] {
    // the psk the honest configuration uses at this location (so that a late set_psk matches the peer)
    for side in 0..2 {
        if let Some(Some(p)) = cfg.psks[side].get(loc) {
            return *p;
        }
    }
    psk_bytes(loc as u8, 0)
}
