pub mod seqmc;
