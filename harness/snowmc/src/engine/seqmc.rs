//! E2: explicit-state search (stateright BFS) over API-call sequences with the implementation in
//! the loop. A state is the history that reaches it; every transition re-executes the history on
//! fresh real snow objects (they are neither Clone nor serialisable) and on the reference model
//! in lock step, then applies one more call. States are merged on the executor's `state_key`
//! (abstract model + private-state fingerprint hook + current key of every cipher object), which
//! is a de-duplication key only - verdicts come from API-observable divergence.

use crate::{
    ctx::machinery,
    exec::{Config, Exec, Op},
};
use stateright::{Checker, Model, Property};
use std::{
    collections::BTreeSet,
    hash::{Hash, Hasher},
    sync::{
        atomic::{AtomicU64, Ordering},
        Arc, Mutex,
    },
};

pub type Alphabet = Arc<dyn Fn(&Exec) -> Vec<(Op, bool)> + Send + Sync>;
pub type Judge = Arc<dyn Fn(&Exec) -> Vec<(String, String)> + Send + Sync>;
pub type Goal = Arc<dyn Fn(&Exec) -> bool + Send + Sync>;

#[derive(Clone)]
pub struct SeqSpec {
    pub cfg: Config,
    /// executed before the exploration starts; part of every history
    pub prefix: Vec<Op>,
    pub max_depth: usize,
    /// budget of deviations (failing / out-of-phase / altered steps) per path
    pub max_devs: usize,
    /// enabled calls in a state, simplest first; the flag marks a deviation
    pub alphabet: Alphabet,
    /// property-specific verdicts on a run: (signature, detail)
    pub judge: Judge,
    /// non-vacuity witness
    pub goal: Goal,
}

#[derive(Clone, Debug)]
pub struct Node {
    pub hist: Vec<Op>,
    pub key: Vec<u8>,
    pub devs: usize,
    pub bad: bool,
    pub goal: bool,
    pub acts: Vec<(Op, bool)>,
    pub obs: u64,
}
impl PartialEq for Node {
    fn eq(&self, o: &Self) -> bool {
        // `goal` (the non-vacuity witness) may depend on the history, not only on the state: keeping it in
        // the identity prevents a goal-reaching path from being merged into an earlier visit of the same state
        self.key == o.key && self.devs == o.devs && self.bad == o.bad && self.goal == o.goal
    }
}
impl Eq for Node {}
impl Hash for Node {
    fn hash<H: Hasher>(&self, h: &mut H) {
        self.key.hash(h);
        self.devs.hash(h);
        self.bad.hash(h);
        self.goal.hash(h);
    }
}

pub struct Shared {
    pub transitions: AtomicU64,
    pub verdicts: Mutex<Vec<(String, String, Vec<Op>)>>,
    pub outcomes: Mutex<BTreeSet<String>>,
}

pub struct SeqModel {
    pub spec: SeqSpec,
    pub shared: Arc<Shared>,
}

fn obs_digest(e: &Exec, upto: usize) -> u64 {
    let mut h = std::collections::hash_map::DefaultHasher::new();
    for s in &e.steps[..upto.min(e.steps.len())] {
        s.real.short().hash(&mut h);
        s.msg_len.hash(&mut h);
    }
    h.finish()
}

impl SeqModel {
    fn eval(&self, hist: &[Op], devs: usize, expect_obs: Option<u64>) -> Node {
        let mut ops = self.spec.prefix.clone();
        ops.extend_from_slice(hist);
        let e = Exec::run(&self.spec.cfg, &ops);
        if let Some(want) = expect_obs {
            // determinism guard: the replayed prefix must reproduce what was observed the first time
            let got = obs_digest(&e, ops.len() - 1);
            if got != want {
                machinery(&format!("replay of a history prefix diverged (nondeterminism not owned by the harness): {:?}", hist));
            }
        }
        let verdicts = (self.spec.judge)(&e);
        let bad = !verdicts.is_empty();
        if bad {
            let mut v = self.shared.verdicts.lock().unwrap();
            for (sig, detail) in verdicts {
                if v.iter().filter(|x| x.0 == sig).count() < 2 {
                    v.push((sig, detail, hist.to_vec()));
                }
            }
        }
        if let Some(s) = e.steps.last() {
            let k = format!("{} -> {}", crate::sess::op_kind(&s.op), s.real.short().split('(').next().unwrap_or(""));
            let mut o = self.shared.outcomes.lock().unwrap();
            if let crate::exec::Real::Err(c) = &s.real {
                o.insert(format!("{} -> Err({c:?})", crate::sess::op_kind(&s.op)));
            } else {
                o.insert(k);
            }
        }
        let acts = if bad || hist.len() >= self.spec.max_depth {
            vec![]
        } else {
            (self.spec.alphabet)(&e).into_iter().filter(|(_, dev)| !*dev || devs < self.spec.max_devs).collect()
        };
        Node { hist: hist.to_vec(), key: e.state_key(), devs, bad, goal: (self.spec.goal)(&e), acts, obs: obs_digest(&e, ops.len()) }
    }
}

impl Model for SeqModel {
    type State = Node;
    type Action = Op;

    fn init_states(&self) -> Vec<Node> {
        vec![self.eval(&[], 0, None)]
    }
    fn actions(&self, s: &Node, out: &mut Vec<Op>) {
        out.extend(s.acts.iter().map(|(o, _)| o.clone()));
    }
    fn next_state(&self, s: &Node, a: Op) -> Option<Node> {
        let dev = s.acts.iter().find(|(o, _)| *o == a).map(|(_, d)| *d).unwrap_or(false);
        let mut h = s.hist.clone();
        h.push(a);
        self.shared.transitions.fetch_add(1, Ordering::Relaxed);
        Some(self.eval(&h, s.devs + usize::from(dev), Some(s.obs)))
    }
    fn properties(&self) -> Vec<Property<Self>> {
        vec![
            Property::always("conforms", |_, s: &Node| !s.bad),
            Property::sometimes("goal reachable (non-vacuity)", |_, s: &Node| s.goal),
            // never true: keeps the search going until the bounded space is exhausted
            Property::sometimes("exhaust", |_, _| false),
        ]
    }
}

#[derive(Debug, Default, Clone)]
pub struct SeqResult {
    pub states: u64,
    pub generated: u64,
    pub transitions: u64,
    pub max_depth: usize,
    pub goal_reached: bool,
    pub verdicts: Vec<(String, String, Vec<Op>)>,
    pub outcomes: BTreeSet<String>,
}

/// Exhaustive BFS of the bounded space of one specification (single-threaded and therefore
/// strictly breadth-first: the first counterexample is a shortest one; callers parallelise
/// across specifications).
pub fn explore(spec: SeqSpec) -> SeqResult {
    let shared = Arc::new(Shared { transitions: AtomicU64::new(0), verdicts: Mutex::new(vec![]), outcomes: Mutex::new(BTreeSet::new()) });
    let model = SeqModel { spec, shared: shared.clone() };
    let checker = model.checker().threads(1).spawn_bfs().join();
    let goal = checker.discovery("goal reachable (non-vacuity)").is_some();
    let res = SeqResult {
        states: checker.unique_state_count() as u64,
        generated: checker.state_count() as u64,
        transitions: shared.transitions.load(Ordering::Relaxed),
        max_depth: checker.max_depth(),
        goal_reached: goal,
        verdicts: shared.verdicts.lock().unwrap().clone(),
        outcomes: shared.outcomes.lock().unwrap().clone(),
    };
    res
}

/// The same space enumerated without any merging (every sequence up to the depth): used as a
/// cross-check that merging hides nothing. Returns (sequences run, verdict signatures).
pub fn enumerate_unmerged(spec: &SeqSpec, depth: usize) -> (u64, BTreeSet<String>) {
    let shared = Arc::new(Shared { transitions: AtomicU64::new(0), verdicts: Mutex::new(vec![]), outcomes: Mutex::new(BTreeSet::new()) });
    let model = SeqModel { spec: SeqSpec { max_depth: depth, ..spec.clone() }, shared: shared.clone() };
    let mut n = 0u64;
    let mut sigs = BTreeSet::new();
    let mut stack = vec![model.eval(&[], 0, None)];
    while let Some(node) = stack.pop() {
        n += 1;
        for (op, dev) in &node.acts {
            let mut h = node.hist.clone();
            h.push(op.clone());
            stack.push(model.eval(&h, node.devs + usize::from(*dev), Some(node.obs)));
        }
    }
    for v in shared.verdicts.lock().unwrap().iter() {
        sigs.insert(v.0.clone());
    }
    (n, sigs)
}
