//! C11 Handshake/transport state machine enforces turn, phase and one-way rules (E2).
//! Model: per endpoint {role, position, phase}; both endpoints live in one system.

use super::common::*;
use crate::{
    ctx::{Ctx, Tier},
    engine::seqmc::{self, SeqSpec},
    exec::{APhase, Cap, Cat, Config, Exec, Msg, Op, WireMeta, SIDES},
};
use rayon::prelude::*;
use refnoise::{patterns, CipherAlg, DhAlg, HashAlg, Proto};
use std::sync::Arc;

const CATS: [Cat; 8] = [Cat::ExpectedOkGotErr, Cat::ExpectedErrGotOk, Cat::WrongErrClass, Cat::GetterTurn, Cat::GetterFinished, Cat::GetterInitiator, Cat::NoOp, Cat::Panic];

fn spec(cfg: Config, depth: usize, devs: usize) -> SeqSpec {
    let proto = cfg.proto();
    let n_msgs = proto.n_msgs();
    let oneway = proto.pattern.is_oneway();
    let alphabet = Arc::new(move |e: &Exec| {
        let mut a: Vec<(Op, bool)> = vec![];
        for s in SIDES {
            let ab = &e.abs[s.idx()];
            let peer = s.peer();
            match ab.phase {
                APhase::Hs => {
                    let my_turn = (ab.pos % 2 == 0) == s.is_init();
                    let fin = ab.pos >= n_msgs;
                    a.push((Op::HsWrite { side: s, plen: 1, cap: Cap::Roomy }, !(my_turn && !fin)));
                    // in phase: fails for its size only; out of phase: still the state error (see `judge`)
                    a.push((Op::HsWrite { side: s, plen: 1, cap: Cap::Exact(0) }, true));
                    // the peer's handshake messages: the latest one (genuine when in sequence) and a stale one
                    let hs: Vec<(usize, usize)> = e.wires[peer.idx()].iter().enumerate().filter_map(|(k, w)| if let WireMeta::Hs { pos, .. } = w.meta { Some((k, pos)) } else { None }).collect();
                    if let Some((k, pos)) = hs.last() {
                        let genuine = !my_turn && !fin && *pos == ab.pos;
                        a.push((Op::HsRead { side: s, msg: Msg::Wire(peer, *k), cap: Cap::Roomy }, !genuine));
                    }
                    if hs.len() >= 2 {
                        a.push((Op::HsRead { side: s, msg: Msg::Wire(peer, hs[0].0), cap: Cap::Roomy }, true));
                    }
                    a.push((Op::HsRead { side: s, msg: Msg::Garbage(96, 7), cap: Cap::Roomy }, true));
                    // a zero-length datagram is not a message either
                    a.push((Op::HsRead { side: s, msg: Msg::Garbage(0, 0), cap: Cap::Roomy }, true));
                    a.push((Op::ToTransport { side: s }, !fin));
                    a.push((Op::ToStateless { side: s }, !fin));
                    // the public TryFrom<HandshakeState> route must enforce the same rule
                    a.push((Op::TryIntoTransport { side: s }, !fin));
                    a.push((Op::TryIntoStateless { side: s }, !fin));
                },
                APhase::T | APhase::S => {
                    let stateless = ab.phase == APhase::S;
                    let written = e.wires[s.idx()].iter().filter(|w| matches!(w.meta, WireMeta::T { .. })).count();
                    let can_write = !(oneway && !s.is_init());
                    if written < 2 {
                        let d = usize::from(!s.is_init());
                        a.push((if stateless { Op::SWrite { side: s, nonce: written as u64, plen: 1, cap: Cap::Roomy } } else { Op::TWrite { side: s, plen: 1, cap: Cap::Roomy } }, !can_write));
                        if !can_write {
                            a.push((if stateless { Op::SWrite { side: s, nonce: written as u64, plen: 1, cap: Cap::Exact(0) } } else { Op::TWrite { side: s, plen: 1, cap: Cap::Exact(0) } }, true));
                        }
                        let _ = d;
                    }
                    let can_read = !(oneway && s.is_init());
                    if let Some((k, WireMeta::T { nonce, .. })) = e.wires[peer.idx()].iter().enumerate().filter(|(_, w)| matches!(w.meta, WireMeta::T { .. })).map(|(k, w)| (k, w.meta.clone())).last() {
                        let d = usize::from(s.is_init());
                        let in_seq = stateless || ab.n[d] == nonce;
                        a.push((if stateless { Op::SRead { side: s, nonce, msg: Msg::Wire(peer, k), cap: Cap::Roomy } } else { Op::TRead { side: s, msg: Msg::Wire(peer, k), cap: Cap::Roomy } }, !(can_read && in_seq)));
                    }
                    a.push((if stateless { Op::SRead { side: s, nonce: 0, msg: Msg::Garbage(32, 9), cap: Cap::Roomy } } else { Op::TRead { side: s, msg: Msg::Garbage(32, 9), cap: Cap::Roomy } }, true));
                    a.push((if stateless { Op::SRead { side: s, nonce: 0, msg: Msg::Garbage(0, 0), cap: Cap::Roomy } } else { Op::TRead { side: s, msg: Msg::Garbage(0, 0), cap: Cap::Roomy } }, true));
                    // one-way patterns: no rekey call - not even one that installs a key for the direction that does
                    // not exist - may lift the rule (once per path: the ops change the key terms)
                    if oneway && !e.steps.iter().any(|st| matches!(st.op, Op::RekeyManual { .. } | Op::RekeyRespManual { .. } | Op::RekeyOut { .. } | Op::RekeyIn { .. }) && st.op.side() == s) {
                        a.push((Op::RekeyRespManual { side: s, k: 2 }, true));
                        a.push((Op::RekeyManual { side: s, i: Some(1), r: Some(2) }, true));
                        a.push((if s.is_init() { Op::RekeyIn { side: s } } else { Op::RekeyOut { side: s } }, true));
                    }
                },
                APhase::Gone => {},
            }
        }
        a
    });
    let goal = Arc::new(|e: &Exec| {
        e.abs.iter().all(|a| matches!(a.phase, APhase::T | APhase::S)) && e.steps.iter().any(|s| matches!(s.op, Op::TRead { .. } | Op::SRead { .. }) && s.real.is_ok())
    });
    SeqSpec { cfg, prefix: vec![], max_depth: depth, max_devs: devs, alphabet, judge: std::sync::Arc::new(judge), goal }
}

/// The property names the *state* errors; the error class of other failures (sizes, authentication) is
/// not this property's business.
fn judge(e: &Exec) -> Vec<(String, String)> {
    use crate::exec::{EClass, Expect};
    let state_err = |c: &EClass| matches!(c, EClass::NotTurnToWrite | EClass::NotTurnToRead | EClass::AlreadyFinished | EClass::NotFinished | EClass::OneWay);
    // An out-of-phase WRITE gets the documented state error whatever its buffers look like ("every out-of-phase
    // call returns the documented state error"). Reads are not judged this way: snow documents that a message
    // longer than 65535 bytes is refused as an input error before anything else is looked at.
    let mut own: Vec<(String, String)> = vec![];
    for (k, st) in e.steps.iter().enumerate() {
        if let (Op::HsWrite { .. } | Op::TWrite { .. } | Op::SWrite { .. }, Expect::Err(c), crate::exec::Real::Err(got)) = (&st.op, &st.expect, &st.real) {
            if c.iter().any(state_err) && !state_err(got) {
                own.push((format!("an out-of-phase write is refused with an error other than the documented state error ({})", crate::sess::op_kind(&st.op)), format!("{}: step {k} {:?} -> {}", e.cfg.name, st.op, st.real.short())));
            }
        }
    }
    let mut rest: Vec<(String, String)> = crate::sess::filter(e, &CATS)
        .into_iter()
        .filter(|m| {
            let st = e.steps.get(m.step);
            let expects_state_err = match st.map(|s| &s.expect) {
                Some(Expect::Err(c)) | Some(Expect::Either(_, c)) => c.iter().any(state_err),
                _ => false,
            };
            match m.cat {
                // the class of an error and "no effect" are judged for out-of-phase calls only
                Cat::WrongErrClass | Cat::NoOp => expects_state_err,
                // an in-phase call refused with a *state* error is this property's business; one refused for a
                // cryptographic or size reason is not (C02 / C07)
                Cat::ExpectedOkGotErr => {
                    matches!(st.map(|s| &s.real), Some(crate::exec::Real::Err(c)) if state_err(c))
                        // ... unless an out-of-phase call was made earlier on this path: it must have had no effect
                        || e.steps[..m.step.min(e.steps.len())].iter().any(|p| matches!(&p.expect, Expect::Err(c) if c.iter().any(state_err)) && !p.real.is_ok())
                },
                _ => true,
            }
        })
        .map(|m| (crate::sess::signature(e, m), format!("{}: {}", e.cfg.name, m.detail)))
        .collect();
    own.append(&mut rest);
    own
}

pub fn protos() -> Vec<Proto> {
    let mut v = vec![];
    for (k, b) in patterns::base_patterns().iter().enumerate() {
        v.push(Proto::new(b, &[], DhAlg::X25519, CipherAlg::ChaChaPoly, HashAlg::Blake2s).unwrap());
        let idx = (k % (b.msgs.len() + 1)) as u8;
        v.push(Proto::new(b, &[idx], DhAlg::X25519, CipherAlg::ChaChaPoly, HashAlg::Blake2s).unwrap());
    }
    v
}

pub fn run(tier: Tier) -> i32 {
    let ctx = Ctx::new("C11", tier, "model_checking");
    let (extra, devs) = if ctx.quick() { (4, 3) } else { (6, 4) };
    ctx.set_rule(format!("explicit-state BFS over call sequences on both endpoints (valid/undersized writes, reads of genuine/stale/garbage messages, both conversions, transport writes/reads) for all 38 patterns and one psk variant each; depth 2*#messages+2+{extra}, at most {devs} out-of-phase/failing calls per path; each transition on real snow objects vs the {{role, position, phase}} model"));
    let mut ps = protos();
    if !ctx.quick() {
        // every psk-modifier subset of every pattern (556 names)
        ps = refnoise::patterns::all_protos_for_suite(DhAlg::X25519, CipherAlg::ChaChaPoly, HashAlg::Blake2s);
    }
    ps.par_iter().for_each(|p| {
        let mut cfg = Config::honest(p, 0);
        cfg.record = true;
        cfg.crypto_oracle = false;
        let s = spec(cfg, 2 * p.n_msgs() + 2 + extra, devs);
        let r = seqmc::explore(s.clone());
        absorb(&ctx, &s, &r, &p.name);
    });
    // second, independent engine: the TLA+ model checked by TLC, every edge of its state graph replayed
    // against the implementation (quick: the 38 base patterns and one psk variant each; thorough: all names)
    super::c11_tla::run(&ctx, &ps);
    let p0 = &ps[8];
    let mut cfg = Config::honest(p0, 0);
    cfg.crypto_oracle = false;
    sample_ops(&ctx, &cfg, &[
        Op::HsRead { side: crate::exec::Side::I, msg: Msg::Garbage(96, 7), cap: Cap::Roomy },
        Op::HsWrite { side: crate::exec::Side::R, plen: 1, cap: Cap::Roomy },
        Op::ToTransport { side: crate::exec::Side::R },
    ]);
    ctx.set("patterns", serde_json::json!(ps.len()));
    ctx.set("deviation_bound", serde_json::json!(devs));
    ctx.assume("where two state conditions hold at once (not my turn and finished) either documented error is accepted; the property fixes no precedence");
    ctx.assume("one suite (25519/ChaChaPoly/BLAKE2s): the state machine does not depend on the primitives");
    *ctx.exhaustive.lock().unwrap() = Some(true);
    ctx.finish()
}

pub fn replay(case: &serde_json::Value) -> Result<(), String> {
    if case["kind"] == "tla" {
        return super::c11_tla::replay(case);
    }
    let (cfg, ops) = crate::sess::case_from_json(case).ok_or("bad case")?;
    let e = crate::sess::run(&cfg, &ops);
    match judge(&e).first() {
        Some((s, d)) => Err(format!("{s}: {d}\n{}", crate::sess::describe_steps(&e).join("\n"))),
        None => Ok(()),
    }
}
