//! C09 Nonces count up by one and the reserved value 2^64-1 is never used (E2 + hook +
//! RecordingCipher). Model: two u64 counters per endpoint.

use super::common::*;
use crate::{
    ctx::{Ctx, Tier},
    engine::seqmc::{self, SeqSpec},
    exec::{Cap, Cat, Config, EClass, Exec, Expect, Msg, Op, Real, Side, WireMeta, SIDES},
    seam::CipherOp,
    sess::{self, Mode},
};
use rayon::prelude::*;
use refnoise::{DhAlg, HashAlg};
use std::sync::Arc;

const CATS: [Cat; 7] = [Cat::ExpectedOkGotErr, Cat::ExpectedErrGotOk, Cat::WrongErrClass, Cat::GetterNonce, Cat::NoOp, Cat::Panic, Cat::OutLen];
const EDGE: [u64; 4] = [0, u64::MAX - 2, u64::MAX - 1, u64::MAX];

/// peer message (wire index) written under exactly (receiver's key term, nonce n), if any
fn genuine_for(e: &Exec, recv: Side, n: u64) -> Option<usize> {
    let d = usize::from(recv.is_init());
    let key = e.abs[recv.idx()].keys[d].as_ref()?;
    e.wires[recv.peer().idx()].iter().position(|w| matches!(&w.meta, WireMeta::T { dir, key: k, nonce, .. } if usize::from(*dir) == d && k == key && *nonce == n))
}

fn judge() -> seqmc::Judge {
    Arc::new(|e: &Exec| {
        // the property names the exhaustion error only: the class of other failures is not judged here
        let names_exhaustion = |m: &&crate::exec::Mismatch| match m.cat {
            // ... and only where exhaustion is the one error that applies (a garbage or undersized delivery at an
            // exhausted counter may be refused for either reason, with whatever class that reason has)
            Cat::WrongErrClass => matches!(e.steps.get(m.step).map(|s| &s.expect), Some(Expect::Err(c)) if c.len() == 1 && c.contains(&EClass::Exhausted)),
            // a call that should have failed and did not: this property's business if it should have failed as exhausted
            Cat::ExpectedErrGotOk => matches!(e.steps.get(m.step).map(|s| &s.expect), Some(Expect::Err(c)) if c.contains(&EClass::Exhausted)),
            // a usable nonce refused is this property's business only if it is refused as exhausted
            Cat::ExpectedOkGotErr => matches!(e.steps.get(m.step).map(|s| &s.real), Some(Real::Err(EClass::Exhausted))),
            _ => true,
        };
        let mut v: Vec<(String, String)> = sess::filter(e, &CATS).into_iter().filter(names_exhaustion).map(|m| (sess::signature(e, m), format!("{}: {}", e.cfg.name, m.detail))).collect();
        // the reserved nonce must never reach the cipher's encrypt/decrypt (rekey is logged separately)
        for s in SIDES {
            for ev in e.logs[s.idx()].cipher_since(0) {
                // (REKEY is by definition ENCRYPT(k, 2^64-1, "", zeros[32]): a backend-independent rekey that
                // spells this out through Cipher::encrypt encrypts no message)
                let is_rekey_computation = matches!(ev.op, CipherOp::Encrypt) && ev.ad.is_empty() && ev.data.len() == 32 && ev.data.iter().all(|b| *b == 0);
                if ev.nonce == u64::MAX && matches!(ev.op, CipherOp::Encrypt | CipherOp::Decrypt) && !is_rekey_computation {
                    v.push((format!("reserved nonce 2^64-1 passed to Cipher::{:?}", ev.op), format!("{}: endpoint {s:?} cipher object {}", e.cfg.name, ev.obj)));
                }
            }
        }
        // an exhausted operation produces no message
        for (k, st) in e.steps.iter().enumerate() {
            if let (Expect::Err(c), Real::Err(EClass::Exhausted)) = (&st.expect, &st.real) {
                if c.contains(&EClass::Exhausted) && st.buf_touched_on_err {
                    v.push((format!("exhausted {} wrote into the output buffer", sess::op_kind(&st.op)), format!("{}: step {k} {:?}", e.cfg.name, st.op)));
                }
            }
        }
        v
    })
}

fn spec(cfg: Config, mode: Mode, depth: usize, devs: usize) -> SeqSpec {
    let proto = cfg.proto();
    let oneway = proto.pattern.is_oneway();
    let mut prefix = sess::handshake_ops(&proto, &[0, 0, 0, 0]);
    prefix.extend(sess::convert_ops(mode));
    let stateless = mode == Mode::SS;
    let alphabet = Arc::new(move |e: &Exec| {
        let mut a: Vec<(Op, bool)> = vec![];
        for s in SIDES {
            let i = s.idx();
            let (ds, dr) = (usize::from(!s.is_init()), usize::from(s.is_init()));
            if stateless {
                for n in [0u64, 1, u64::MAX - 1, u64::MAX] {
                    a.push((Op::SWrite { side: s, nonce: n, plen: 2, cap: Cap::Roomy }, false));
                    if let Some(w) = genuine_for(e, s, n) {
                        a.push((Op::SRead { side: s, nonce: n, msg: Msg::Wire(s.peer(), w), cap: Cap::Roomy }, false));
                    }
                    a.push((Op::SRead { side: s, nonce: n, msg: Msg::Garbage(24, 3), cap: Cap::Roomy }, true));
                }
                // a genuine message presented under the reserved nonce
                if let Some(w) = genuine_for(e, s, 0) {
                    a.push((Op::SRead { side: s, nonce: u64::MAX, msg: Msg::Wire(s.peer(), w), cap: Cap::Roomy }, true));
                }
                continue;
            }
            let _ = (oneway, ds);
            a.push((Op::TWrite { side: s, plen: 2, cap: Cap::Roomy }, false));
            a.push((Op::TWrite { side: s, plen: 2, cap: Cap::NeedPlus(-1) }, true));
            a.push((Op::TWrite { side: s, plen: 65520, cap: Cap::Roomy }, true));
            if let Some(w) = genuine_for(e, s, e.abs[i].n[dr]) {
                a.push((Op::TRead { side: s, msg: Msg::Wire(s.peer(), w), cap: Cap::Roomy }, false));
                a.push((Op::TRead { side: s, msg: Msg::Wire(s.peer(), w), cap: Cap::NeedPlus(-1) }, true));
            }
            a.push((Op::TRead { side: s, msg: Msg::Garbage(24, 3), cap: Cap::Roomy }, true));
            for v in EDGE {
                if e.abs[i].n[dr] != v {
                    a.push((Op::SetRecvNonce { side: s, n: v }, false));
                }
                if e.abs[i].n[ds] != v {
                    a.push((Op::SetSendNonce { side: s, n: v }, false));
                }
            }
            a.push((Op::RekeyOut { side: s }, true));
            a.push((Op::RekeyIn { side: s }, true));
            a.push((Op::RekeyManual { side: s, i: Some(1), r: Some(2) }, true));
        }
        a
    });
    // non-vacuity witness: a call refused with the exhaustion error (a goal must be decidable from the last
    // step / the state: histories are merged); accepted reads are witnessed by the outcome set
    let goal = Arc::new(|e: &Exec| matches!(e.steps.last().map(|s| &s.real), Some(Real::Err(EClass::Exhausted))));
    SeqSpec { cfg, prefix, max_depth: depth, max_devs: devs, alphabet, judge: judge(), goal }
}


/// Unmerged companion of the BFS: one long session per configuration. The counters are walked through carry
/// boundaries (2^8, 2^16, 2^31, 2^32, 2^48, 2^63) and up to the reserved value with the nonce setters, three
/// messages are exchanged at each point, failing calls of every kind are interposed, and 300 messages are
/// counted one by one from zero. Every step is compared with the two-counter model (getters included).
fn linear_sweep(ctx: &Ctx, cfg: &Config, label: &str) {
    let proto = cfg.proto();
    let oneway = proto.pattern.is_oneway();
    let mut ops = sess::handshake_ops(&proto, &[0, 0, 0, 0]);
    ops.extend(sess::convert_ops(Mode::TT));
    let dirs: Vec<Side> = if oneway { vec![Side::I] } else { vec![Side::I, Side::R] };
    let fails = |w: Side, ops: &mut Vec<Op>| {
        let r = w.peer();
        ops.push(Op::TWrite { side: w, plen: 2, cap: Cap::NeedPlus(-1) });
        ops.push(Op::TWrite { side: w, plen: 65520, cap: Cap::Exact(70000) });
        ops.push(Op::TRead { side: r, msg: Msg::Garbage(24, 3), cap: Cap::Roomy });
        ops.push(Op::TRead { side: r, msg: Msg::Garbage(5, 3), cap: Cap::Roomy });
        ops.push(Op::TRead { side: r, msg: Msg::Garbage(65536, 3), cap: Cap::Roomy });
    };
    for &w in &dirs {
        let r = w.peer();
        // count from zero
        for k in 0..300usize {
            ops.push(Op::TWrite { side: w, plen: k % 5, cap: Cap::Roomy });
            if k % 97 == 11 {
                ops.push(Op::RekeyManual { side: w, i: Some(5), r: Some(6) });
                ops.push(Op::RekeyManual { side: r, i: Some(5), r: Some(6) });
            }
            if k % 37 == 5 {
                fails(w, &mut ops);
                ops.push(Op::TRead { side: r, msg: Msg::Last(w), cap: Cap::NeedPlus(-1) });
            }
            ops.push(Op::TRead { side: r, msg: Msg::Last(w), cap: if k % 2 == 0 { Cap::Roomy } else { Cap::NeedPlus(0) } });
        }
        // carry boundaries and the approach to the reserved value
        for v in [(1u64 << 8) - 2, (1 << 16) - 2, (1 << 31) - 2, (1 << 32) - 2, (1 << 48) - 2, (1 << 63) - 2, u64::MAX - 4] {
            ops.push(Op::SetSendNonce { side: w, n: v });
            ops.push(Op::SetRecvNonce { side: r, n: v });
            for k in 0..4 {
                ops.push(Op::TWrite { side: w, plen: 3, cap: Cap::Roomy });
                if k == 1 {
                    fails(w, &mut ops);
                }
                ops.push(Op::TRead { side: r, msg: Msg::Last(w), cap: Cap::Roomy });
            }
        }
        // after u64::MAX - 4 + 4 messages both counters stand at 2^64-1... the last message went out under 2^64-2;
        // everything from here on must be refused as exhausted and move nothing
        for _ in 0..3 {
            ops.push(Op::TWrite { side: w, plen: 3, cap: Cap::Roomy });
            ops.push(Op::TRead { side: r, msg: Msg::Last(w), cap: Cap::Roomy });
            fails(w, &mut ops);
        }
        // rekeys of every kind never move a counter - not even an exhausted one (both sides alike, so the keys stay in step)
        for rk in [
            vec![Op::RekeyManual { side: w, i: Some(1), r: Some(2) }, Op::RekeyManual { side: r, i: Some(1), r: Some(2) }],
            vec![Op::RekeyInitManual { side: w, k: 3 }, Op::RekeyInitManual { side: r, k: 3 }, Op::RekeyRespManual { side: w, k: 4 }, Op::RekeyRespManual { side: r, k: 4 }],
            vec![Op::RekeyOut { side: w }, Op::RekeyIn { side: r }, Op::RekeyIn { side: w }, Op::RekeyOut { side: r }],
        ] {
            ops.extend(rk);
            ops.push(Op::TWrite { side: w, plen: 3, cap: Cap::Roomy });
            ops.push(Op::TRead { side: r, msg: Msg::Last(w), cap: Cap::Roomy });
        }
        // exhaustion is a property of the counter value, not a latch: once the counters are set elsewhere
        // (explicit receiving-nonce setting; the sender through the hook) traffic resumes and counts on
        ops.push(Op::SetSendNonce { side: w, n: 1000 });
        ops.push(Op::SetRecvNonce { side: r, n: 1000 });
        for _ in 0..3 {
            ops.push(Op::TWrite { side: w, plen: 3, cap: Cap::Roomy });
            ops.push(Op::TRead { side: r, msg: Msg::Last(w), cap: Cap::Roomy });
        }
        // ... also after a visit to the reserved value with a rejected call there
        ops.push(Op::SetRecvNonce { side: r, n: u64::MAX });
        ops.push(Op::TRead { side: r, msg: Msg::Last(w), cap: Cap::Roomy });
        ops.push(Op::SetRecvNonce { side: r, n: 1003 });
        ops.push(Op::TWrite { side: w, plen: 3, cap: Cap::Roomy });
        ops.push(Op::TRead { side: r, msg: Msg::Last(w), cap: Cap::Roomy });
    }
    let e = sess::run(cfg, &ops);
    ctx.add(&ctx.evaluations, e.steps.len() as u64);
    ctx.add(&ctx.transitions, e.steps.len() as u64);
    ctx.add(&ctx.traces, 1);
    ctx.count("linear_sweep_calls", e.steps.len() as u64);
    let exhausted = e.steps.iter().filter(|s| matches!(s.real, Real::Err(EClass::Exhausted))).count();
    if exhausted == 0 {
        ctx.vacuous(format!("{label}: the long session never met the exhaustion error"));
    }
    if let Some((sig, d)) = (judge())(&e).into_iter().next() {
        let step = e.mism.iter().map(|m| m.step).min().unwrap_or(ops.len() - 1).min(ops.len() - 1);
        ctx.violation(format!("{sig} (long session)"), format!("{label}: {d}"), sess::case_json(cfg, &ops[..=step]));
    }
}

pub fn run(tier: Tier) -> i32 {
    let ctx = Ctx::new("C09", tier, "model_checking");
    let (depth, devs) = if ctx.quick() { (4, 2) } else { (6, 3) };
    ctx.set_rule(format!("explicit-state BFS over sequences of transport writes/reads (valid, undersized, oversize, garbage), set_receiving_nonce / verif_set_sending_nonce in {{0, 2^64-3..2^64-1}}, rekeys, stateless calls with nonces {{0,1,2^64-2,2^64-1}}; depth {depth}, at most {devs} failing calls per path; every transition on real snow objects vs two u64 counters per endpoint, plus the RecordingCipher log; plus, unmerged, one long session per configuration (300 messages counted from zero, the counters walked through 2^8/2^16/2^31/2^32/2^48/2^63 and up to 2^64-1, failing calls interposed)"));
    let mut specs = vec![];
    for (c, b) in cipher_backends() {
        for pat in ["NN", "N"] {
            for mode in [Mode::TT, Mode::SS] {
                let p = proto(pat, &[], DhAlg::X25519, c, HashAlg::Blake2s);
                let mut cfg = Config::honest(&p, 0);
                cfg.backend = [b, b];
                cfg.record = true;
                cfg.crypto_oracle = false;
                specs.push((spec(cfg, mode, depth, devs), format!("{} {:?} {:?}", p.name, b, mode)));
            }
        }
    }
    specs.par_iter().for_each(|(s, label)| {
        let r = seqmc::explore(s.clone());
        if std::env::var("C09_DEBUG").is_ok() && !r.goal_reached {
            eprintln!("{label}: states {} transitions {} max_depth {} outcomes {:?}", r.states, r.transitions, r.max_depth, r.outcomes);
        }
        absorb(&ctx, s, &r, label);
        if !r.outcomes.iter().any(|o| (o.starts_with("TRead") || o.starts_with("SRead")) && o.ends_with("-> Ok")) {
            ctx.vacuous(format!("{label}: no read was ever accepted"));
        }
    });
    specs.iter().filter(|(s, _)| s.cfg.name.contains("_NN_") || s.cfg.name.contains("_N_")).for_each(|(s, label)| {
        if label.ends_with("TT") {
            linear_sweep(&ctx, &s.cfg, label);
        }
    });
    let (s0, _) = &specs[0];
    sample_ops(&ctx, &s0.cfg, &{
        let mut o = s0.prefix.clone();
        o.push(Op::SetSendNonce { side: Side::I, n: u64::MAX - 1 });
        o.push(Op::TWrite { side: Side::I, plen: 2, cap: Cap::Roomy });
        o.push(Op::TWrite { side: Side::I, plen: 2, cap: Cap::Roomy });
        o
    });
    ctx.set("depth_bound", serde_json::json!(depth));
    ctx.set("deviation_bound", serde_json::json!(devs));
    ctx.assume("nonce values are drawn from {0,1,2^64-3..2^64-1}; the stateful sender is placed with the verif-hooks accessor verif_set_sending_nonce");
    *ctx.exhaustive.lock().unwrap() = Some(true);
    ctx.finish()
}

pub fn replay(case: &serde_json::Value) -> Result<(), String> {
    let (cfg, ops) = sess::case_from_json(case).ok_or("bad case")?;
    let e = sess::run(&cfg, &ops);
    match (judge())(&e).first() {
        Some((sig, d)) => Err(format!("{sig}: {d}\n{}", sess::describe_steps(&e).join("\n"))),
        None => Ok(()),
    }
}
