//! C16 Stateless transport is a pure function of keys, nonce and input.
//! Sequential part (E1): round trips for a nonce alphabet x payload sizes, every order of a set
//! of calls incl. repetitions, equality with the n-th message of a stateful sender (small n) and
//! with a stateful sender moved by the nonce hook (large n).
//! Concurrent part (E3): shuttle::check_dfs (exhaustive, no sampling) over threads sharing one
//! StatelessTransportState; scheduling points are inserted by a yielding Cipher wrapper before
//! and after every inner encrypt/decrypt, so every interleaving of the pre-cipher / cipher /
//! post-cipher segments of the calls is explored. A free-running real-thread run of the same
//! bodies is executed in addition and labelled a sample.

use super::common::*;
use crate::{
    ctx::{Ctx, Tier},
    exec::{key_bytes, payload_bytes, Cap, Config, Exec, Msg, Op, Side, WireMeta},
    seam::{backend_resolver, Backend},
    sess::{self, Mode},
};
use rayon::prelude::*;
use refnoise::{CipherAlg, DhAlg, HashAlg, Proto};
use serde_json::json;
use snow::{
    params::{CipherChoice, DHChoice, HashChoice},
    resolvers::{BoxedCryptoResolver, CryptoResolver},
    types::{Cipher, Dh, Hash, Random},
    Builder, StatelessTransportState,
};
use std::sync::{
    atomic::{AtomicBool, AtomicU64, Ordering},
    Arc, Mutex,
};

// ---------------------------------------------------------------------------------------------
// sequential part

fn seq_cfg(p: &Proto, b: Backend) -> Config {
    let mut c = Config::honest(p, 0);
    c.backend = [b, b];
    c.crypto_oracle = false;
    c
}

fn t_wires(e: &Exec, s: Side) -> Vec<(u64, usize, Vec<u8>)> {
    e.wires[s.idx()].iter().filter_map(|w| if let WireMeta::T { nonce, plen, .. } = w.meta { Some((nonce, plen, w.bytes.clone())) } else { None }).collect()
}

fn sequential(ctx: &Ctx, p: &Proto, b: Backend, writer: Side) {
    let cfg = seq_cfg(p, b);
    let label = format!("{} {:?} writer {:?}", p.name, b, writer);
    let mut hs = sess::handshake_ops(p, &[0, 0, 0, 0]);
    let hs_len = hs.len();
    let _ = hs_len;
    let reader = writer.peer();
    // (1) round trips: nonce alphabet x payload sizes, plus repeated reads of the same message
    let nonces: Vec<u64> = super::c04::nonces().into_iter().filter(|n| *n != u64::MAX).collect();
    let mut ops = hs.clone();
    ops.extend(sess::convert_ops(Mode::SS));
    for &n in &nonces {
        for plen in [0usize, 1, 64, 1000] {
            ops.push(Op::SWrite { side: writer, nonce: n, plen, cap: Cap::Roomy });
            ops.push(Op::SRead { side: reader, nonce: n, msg: Msg::Last(writer), cap: Cap::Roomy });
            ops.push(Op::SRead { side: reader, nonce: n, msg: Msg::Last(writer), cap: Cap::Roomy });
        }
    }
    let e = Exec::run(&cfg, &ops);
    ctx.add(&ctx.evaluations, e.steps.len() as u64);
    ctx.add(&ctx.transitions, e.steps.len() as u64);
    ctx.add(&ctx.traces, 1);
    for (k, s) in e.steps.iter().enumerate() {
        if !s.real.is_ok() {
            ctx.violation(format!("stateless round trip fails ({})", sess::op_kind(&s.op).split('(').next().unwrap_or("")), format!("{label}: step {k} {:?} -> {}", s.op, s.real.short()), sess::case_json(&cfg, &ops[..=k]));
            return;
        }
    }
    for m in sess::filter(&e, &[crate::exec::Cat::OutBytes, crate::exec::Cat::OutLen]) {
        ctx.violation("a stateless read does not return the written payload", format!("{label}: {}", m.detail), sess::case_json(&cfg, &ops[..=m.step]));
    }
    ctx.add(&ctx.nontrivial, (nonces.len() * 4) as u64);
    // (2) every order of five calls, repeated: identical bytes whatever the order
    let first = t_wires(&e, writer);
    let find = |n: u64, plen: usize| first.iter().find(|w| w.0 == n && w.1 == plen).map(|w| w.2.clone()).unwrap();
    let (na, nb) = (5u64, 1u64 << 40);
    let (ma, mb) = (find(nonces[3], 64), find(1 << 40, 64));
    let calls = [
        Op::SWrite { side: writer, nonce: nonces[3], plen: 64, cap: Cap::Roomy },
        Op::SWrite { side: writer, nonce: 1 << 40, plen: 64, cap: Cap::Roomy },
        Op::SRead { side: reader, nonce: nonces[3], msg: Msg::Raw(ma.clone()), cap: Cap::Roomy },
        Op::SRead { side: reader, nonce: 1 << 40, msg: Msg::Raw(mb.clone()), cap: Cap::Roomy },
        Op::SWrite { side: writer, nonce: nonces[3], plen: 64, cap: Cap::Roomy },
    ];
    let _ = (na, nb);
    let mut perm: Vec<usize> = (0..5).collect();
    let mut perms = vec![];
    permute(&mut perm, 0, &mut perms);
    let mut ops2 = hs.clone();
    ops2.extend(sess::convert_ops(Mode::SS));
    for pm in &perms {
        for _rep in 0..3 {
            for k in pm {
                ops2.push(calls[*k].clone());
            }
        }
    }
    let e2 = Exec::run(&cfg, &ops2);
    ctx.add(&ctx.evaluations, e2.steps.len() as u64);
    ctx.add(&ctx.transitions, e2.steps.len() as u64);
    ctx.add(&ctx.traces, perms.len() as u64);
    ctx.count("call_orders", perms.len() as u64);
    for (n, plen, bytes) in t_wires(&e2, writer) {
        let want = if n == nonces[3] { &ma } else { &mb };
        if plen == 64 && &bytes != want {
            ctx.violation("a stateless write under the same nonce and payload produced different bytes in a different call order", format!("{label}: nonce {n:#x}"), sess::case_json(&cfg, &ops2));
            break;
        }
    }
    // the expectation of Raw reads is "not genuine" in the abstract model: judge them here directly
    for (k, s) in e2.steps.iter().enumerate() {
        if let Op::SRead { .. } = s.op {
            let okp = matches!(&s.real, crate::exec::Real::Ok(64, b) if *b == payload_bytes(64, 0x80 ^ if matches!(s.op, Op::SRead { nonce, .. } if nonce == nonces[3]) { nonces[3] as u8 } else { 0 }));
            if !okp {
                ctx.violation("a stateless read of a genuine message fails or returns other bytes depending on call order", format!("{label}: step {k} {:?} -> {}", s.op, s.real.short()), sess::case_json(&cfg, &ops2[..=k]));
                break;
            }
        }
    }
    // (3) the message under nonce n equals the n-th message of a stateful sender
    let mut ops_t = hs.clone();
    ops_t.extend(sess::convert_ops(Mode::TT));
    let mut ops_s = std::mem::take(&mut hs);
    ops_s.extend(sess::convert_ops(Mode::SS));
    for n in 0..=8u64 {
        ops_t.push(Op::TWrite { side: writer, plen: 10 + n as usize, cap: Cap::Roomy });
    }
    for n in (0..=8u64).rev() {
        ops_s.push(Op::SWrite { side: writer, nonce: n, plen: 10 + n as usize, cap: Cap::Roomy });
    }
    // large nonces: move the stateful sender with the hook
    let large: Vec<u64> = vec![1 << 31, (1 << 32) - 1, 1 << 32, (1 << 32) + 1, 1 << 56, 1 << 63, u64::MAX - 2, 0x0102_0304_0506_0708];
    for (k, &n) in large.iter().enumerate() {
        ops_t.push(Op::SetSendNonce { side: writer, n });
        ops_t.push(Op::TWrite { side: writer, plen: 30 + k, cap: Cap::Roomy });
        ops_s.push(Op::SWrite { side: writer, nonce: n, plen: 30 + k, cap: Cap::Roomy });
    }
    // the largest payload
    ops_t.push(Op::SetSendNonce { side: writer, n: 77 });
    ops_t.push(Op::TWrite { side: writer, plen: 65519, cap: Cap::Roomy });
    ops_s.push(Op::SWrite { side: writer, nonce: 77, plen: 65519, cap: Cap::Roomy });
    let (et, es) = (Exec::run(&cfg, &ops_t), Exec::run(&cfg, &ops_s));
    ctx.add(&ctx.evaluations, (et.steps.len() + es.steps.len()) as u64);
    ctx.add(&ctx.transitions, (et.steps.len() + es.steps.len()) as u64);
    ctx.add(&ctx.traces, 2);
    let (wt, ws) = (t_wires(&et, writer), t_wires(&es, writer));
    // the payload pattern depends on the nonce, so equal (nonce, plen) means equal input
    for (n, plen, bytes) in &wt {
        match ws.iter().find(|w| w.0 == *n && w.1 == *plen) {
            Some(w) if &w.2 == bytes => {
                ctx.add(&ctx.nontrivial, 1);
            },
            Some(_) => ctx.violation("the stateless message under nonce n differs from the stateful sender's message number n", format!("{label}: nonce {n:#x} payload {plen}"), sess::case_json(&cfg, &ops_s)),
            None => ctx.violation("the stateless sender rejected an input the stateful sender accepts (or vice versa)", format!("{label}: nonce {n:#x} payload {plen}"), sess::case_json(&cfg, &ops_s)),
        }
    }
    if wt.len() != ws.len() {
        ctx.violation("the stateless sender rejected an input the stateful sender accepts (or vice versa)", format!("{label}: {} stateful vs {} stateless messages", wt.len(), ws.len()), sess::case_json(&cfg, &ops_s));
    }
}

fn permute(a: &mut Vec<usize>, k: usize, out: &mut Vec<Vec<usize>>) {
    if k == a.len() {
        out.push(a.clone());
        return;
    }
    for i in k..a.len() {
        a.swap(k, i);
        permute(a, k + 1, out);
        a.swap(k, i);
    }
}

// ---------------------------------------------------------------------------------------------
// concurrent part

static YIELD_ON: AtomicBool = AtomicBool::new(false);
static REAL_THREADS: AtomicBool = AtomicBool::new(false);

static YIELDS: AtomicU64 = AtomicU64::new(0);
fn seam_yield() {
    if YIELD_ON.load(Ordering::SeqCst) {
        YIELDS.fetch_add(1, Ordering::SeqCst);
        if REAL_THREADS.load(Ordering::SeqCst) {
            std::thread::yield_now();
        } else {
            shuttle::thread::yield_now();
        }
    }
}

struct YieldCipher(Box<dyn Cipher>);
impl Cipher for YieldCipher {
    fn name(&self) -> &'static str {
        self.0.name()
    }
    fn set(&mut self, k: &[u8; 32]) {
        self.0.set(k);
    }
    fn encrypt(&self, n: u64, a: &[u8], p: &[u8], o: &mut [u8]) -> usize {
        seam_yield();
        let r = self.0.encrypt(n, a, p, o);
        seam_yield();
        r
    }
    fn decrypt(&self, n: u64, a: &[u8], c: &[u8], o: &mut [u8]) -> Result<usize, snow::Error> {
        seam_yield();
        let r = self.0.decrypt(n, a, c, o);
        seam_yield();
        r
    }
    fn rekey(&mut self) {
        self.0.rekey();
    }
}
struct YieldResolver(BoxedCryptoResolver);
impl CryptoResolver for YieldResolver {
    fn resolve_rng(&self) -> Option<Box<dyn Random>> {
        self.0.resolve_rng()
    }
    fn resolve_dh(&self, c: &DHChoice) -> Option<Box<dyn Dh>> {
        self.0.resolve_dh(c)
    }
    fn resolve_hash(&self, c: &HashChoice) -> Option<Box<dyn Hash>> {
        self.0.resolve_hash(c)
    }
    fn resolve_cipher(&self, c: &CipherChoice) -> Option<Box<dyn Cipher>> {
        self.0.resolve_cipher(c).map(|x| Box::new(YieldCipher(x)) as Box<dyn Cipher>)
    }
}

/// a fresh NN session in stateless mode (fixed ephemerals: every execution has the same keys)
fn stateless_pair(cipher: CipherAlg, b: Backend) -> (StatelessTransportState, StatelessTransportState) {
    let name = format!("Noise_NN_25519_{}_SHA256", cipher.name());
    let (ei, er) = (key_bytes(3), key_bytes(4));
    let mk = |init: bool| {
        let bld = Builder::with_resolver(name.parse().unwrap(), Box::new(YieldResolver(backend_resolver(b)))).fixed_ephemeral_key_for_testing_only(if init { &ei } else { &er });
        if init {
            bld.build_initiator().unwrap()
        } else {
            bld.build_responder().unwrap()
        }
    };
    let (mut i, mut r) = (mk(true), mk(false));
    let (mut m, mut o) = (vec![0u8; 256], vec![0u8; 256]);
    let n = i.write_message(&[], &mut m).unwrap();
    r.read_message(&m[..n], &mut o).unwrap();
    let n = r.write_message(&[], &mut m).unwrap();
    i.read_message(&m[..n], &mut o).unwrap();
    (i.into_stateless_transport_mode().unwrap(), r.into_stateless_transport_mode().unwrap())
}

#[derive(Clone, Debug, serde::Serialize, serde::Deserialize)]
pub enum Call {
    /// write on the initiator (true) / responder (false) side object
    Write { init: bool, nonce: u64, plen: usize },
    /// read on that side of the message the peer writes under `nonce` with `plen` payload bytes
    Read { init: bool, nonce: u64, plen: usize },
}

fn run_call(c: &Call, si: &StatelessTransportState, sr: &StatelessTransportState, msgs: &dyn Fn(bool, u64, usize) -> Vec<u8>) -> Result<Vec<u8>, String> {
    match c {
        Call::Write { init, nonce, plen } => {
            let st = if *init { si } else { sr };
            let mut out = vec![0u8; plen + 16];
            st.write_message(*nonce, &payload_bytes(*plen, *nonce as u8), &mut out).map(|n| out[..n].to_vec()).map_err(|e| format!("{e:?}"))
        },
        Call::Read { init, nonce, plen } => {
            let st = if *init { si } else { sr };
            let m = msgs(!*init, *nonce, *plen);
            let mut out = vec![0u8; *plen + 16];
            st.read_message(*nonce, &m, &mut out).map(|n| out[..n].to_vec()).map_err(|e| format!("{e:?}"))
        },
    }
}

/// sequential reference: what each call returns when nothing runs concurrently
fn expected(cipher: CipherAlg, b: Backend, threads: &[Vec<Call>]) -> (Vec<Vec<Result<Vec<u8>, String>>>, impl Fn(bool, u64, usize) -> Vec<u8> + Clone + Send + Sync + 'static) {
    YIELD_ON.store(false, Ordering::SeqCst);
    let (si, sr) = stateless_pair(cipher, b);
    let (si, sr) = (Arc::new(si), Arc::new(sr));
    let (si2, sr2) = (si.clone(), sr.clone());
    // genuine messages are computed sequentially, up front, on a session of the same keys
    let mut table: std::collections::HashMap<(bool, u64, usize), Vec<u8>> = std::collections::HashMap::new();
    for c in threads.iter().flatten() {
        if let Call::Read { init, nonce, plen } = c {
            let from_init = !*init;
            let st = if from_init { &si2 } else { &sr2 };
            let mut out = vec![0u8; plen + 16];
            // no message exists under the reserved nonce: any well-formed bytes do (the read must fail)
            let wn = if *nonce == u64::MAX { 0 } else { *nonce };
            let n = st.write_message(wn, &payload_bytes(*plen, *nonce as u8), &mut out).unwrap_or(0);
            table.insert((from_init, *nonce, *plen), out[..n].to_vec());
        }
    }
    let table = Arc::new(table);
    let msgs = move |from_init: bool, nonce: u64, plen: usize| -> Vec<u8> { table.get(&(from_init, nonce, plen)).cloned().unwrap_or_default() };
    let exp = threads.iter().map(|t| t.iter().map(|c| run_call(c, &si, &sr, &msgs)).collect()).collect();
    (exp, msgs)
}

fn mixes() -> Vec<(&'static str, Vec<Vec<Call>>)> {
    let w = |init, nonce, plen| Call::Write { init, nonce, plen };
    let r = |init, nonce, plen| Call::Read { init, nonce, plen };
    vec![
        ("2x2 write/write same direction, different nonces", vec![vec![w(true, 1, 5), w(true, 2, 9)], vec![w(true, 3, 5), w(true, 1 << 40, 7)]]),
        ("2x2 write/write same nonce", vec![vec![w(true, 7, 5), w(true, 7, 5)], vec![w(true, 7, 5), w(true, 7, 6)]]),
        ("2x2 write/read same object (both directions)", vec![vec![w(true, 1, 5), r(true, 2, 6)], vec![r(true, 1, 4), w(true, 2, 8)]]),
        ("2x2 read/read", vec![vec![r(false, 1, 5), r(false, 2, 9)], vec![r(false, 3, 5), r(false, 1, 5)]]),
        ("3x1 write/write/read", vec![vec![w(false, 4, 3)], vec![w(false, 5, 3)], vec![r(false, 4, 6)]]),
        ("3x1 reads incl. a rejected one", vec![vec![r(true, 9, 3)], vec![r(true, 10, 3)], vec![Call::Read { init: true, nonce: u64::MAX, plen: 3 }]]),
    ]
}

static EXECUTIONS: AtomicU64 = AtomicU64::new(0);

fn explore_mix(cipher: CipherAlg, b: Backend, threads: Vec<Vec<Call>>) -> (u64, Vec<String>) {
    let (exp, msgs) = expected(cipher, b, &threads);
    let bad: Arc<Mutex<Vec<String>>> = Arc::new(Mutex::new(vec![]));
    let bad2 = bad.clone();
    let before = EXECUTIONS.load(Ordering::SeqCst);
    let exp = Arc::new(exp);
    let threads = Arc::new(threads);
    REAL_THREADS.store(false, Ordering::SeqCst);
    shuttle::check_dfs(
        move || {
            YIELD_ON.store(false, Ordering::SeqCst);
            let (si, sr) = stateless_pair(cipher, b);
            let (si, sr) = (Arc::new(si), Arc::new(sr));
            YIELD_ON.store(true, Ordering::SeqCst);
            EXECUTIONS.fetch_add(1, Ordering::SeqCst);
            let mut hs = vec![];
            for (t, calls) in threads.iter().enumerate() {
                let (si, sr, calls, exp, bad, msgs) = (si.clone(), sr.clone(), calls.clone(), exp.clone(), bad2.clone(), msgs.clone());
                hs.push(shuttle::thread::spawn(move || {
                    for (k, c) in calls.iter().enumerate() {
                        let got = run_call(c, &si, &sr, &msgs);
                        if got != exp[t][k] {
                            let mut g = bad.lock().unwrap();
                            if g.len() < 3 {
                                g.push(format!("thread {t} call {k} {c:?}: concurrent result differs from the sequential function"));
                            }
                        }
                    }
                }));
            }
            for h in hs {
                h.join().unwrap();
            }
            YIELD_ON.store(false, Ordering::SeqCst);
        },
        None,
    );
    let n = EXECUTIONS.load(Ordering::SeqCst) - before;
    let v = bad.lock().unwrap().clone();
    (n, v)
}

/// the same bodies on real threads, free running (a labelled sample, not the deciding step)
fn stress_mix(cipher: CipherAlg, b: Backend, threads: Vec<Vec<Call>>, rounds: usize) -> (u64, Vec<String>) {
    let (exp, msgs) = expected(cipher, b, &threads);
    REAL_THREADS.store(true, Ordering::SeqCst);
    YIELD_ON.store(false, Ordering::SeqCst);
    let (si, sr) = stateless_pair(cipher, b);
    let (si, sr) = (Arc::new(si), Arc::new(sr));
    YIELD_ON.store(true, Ordering::SeqCst);
    let bad: Arc<Mutex<Vec<String>>> = Arc::new(Mutex::new(vec![]));
    let exp = Arc::new(exp);
    let mut hs = vec![];
    // each logical thread is run by 3 OS threads to raise contention
    for (t, calls) in threads.iter().enumerate() {
        for _copy in 0..3 {
            let (si, sr, calls, exp, bad, msgs) = (si.clone(), sr.clone(), calls.clone(), exp.clone(), bad.clone(), msgs.clone());
            hs.push(std::thread::spawn(move || {
                for _ in 0..rounds {
                    for (k, c) in calls.iter().enumerate() {
                        let got = run_call(c, &si, &sr, &msgs);
                        if got != exp[t][k] {
                            let mut g = bad.lock().unwrap();
                            if g.len() < 3 {
                                g.push(format!("thread {t} call {k} {c:?}: result under real threads differs from the sequential function"));
                            }
                            return;
                        }
                    }
                }
            }));
        }
    }
    for h in hs {
        let _ = h.join();
    }
    YIELD_ON.store(false, Ordering::SeqCst);
    REAL_THREADS.store(false, Ordering::SeqCst);
    let v = bad.lock().unwrap().clone();
    ((rounds * threads.iter().map(Vec::len).sum::<usize>() * 3) as u64, v)
}

pub fn run(tier: Tier) -> i32 {
    let ctx = Ctx::new("C16", tier, "model_checking");
    let quick = ctx.quick();
    ctx.set_rule("sequential: for every cipher x backend x writer role: read(n, write(n, p)) == p for an 80-value nonce alphabet x payload sizes {0,1,64,1000}, read twice; all 120 orders of five calls x 3 repetitions give identical bytes; stateless message under n == n-th stateful message for n in 0..=8, and == the stateful message after verif_set_sending_nonce(n) for 8 large nonces, and for the 65519-byte payload. concurrent: shuttle DFS over every interleaving of the pre-cipher/cipher/post-cipher segments of 2 threads x 2 calls and 3 threads x 1 call on a shared StatelessTransportState (6 call mixes x ciphers x backends), every call's result compared with the sequential function; states = schedules explored");
    // sequential
    let mut seq_jobs = vec![];
    for (c, b) in cipher_backends() {
        for (pat, w) in [("NN", Side::I), ("NN", Side::R), ("N", Side::I)] {
            seq_jobs.push((proto(pat, &[], DhAlg::X25519, c, HashAlg::Blake2s), b, w));
        }
    }
    seq_jobs.par_iter().for_each(|(p, b, w)| sequential(&ctx, p, *b, *w));
    ctx.count("sequential_instances", seq_jobs.len() as u64);
    // concurrent (shuttle's runner is itself sequential per exploration; explorations are independent)
    let mut conc_jobs = vec![];
    for (c, b) in cipher_backends() {
        if quick && !(b == Backend::Default || c == CipherAlg::AesGcm) {
            continue;
        }
        for (label, th) in mixes() {
            // the 25 424-schedule 3-thread mix runs for one cipher in the quick tier, for all in thorough
            if quick && label.starts_with("3x1 write") && !(c == CipherAlg::ChaChaPoly && b == Backend::Default) {
                continue;
            }
            conc_jobs.push((c, b, label, th));
        }
    }
    let schedules = AtomicU64::new(0);
    let outcomes = Mutex::new(std::collections::BTreeSet::new());
    // shuttle uses global state for the yield switch: run the explorations one after the other
    for (c, b, label, th) in &conc_jobs {
        let t0 = std::time::Instant::now();
        let r = std::panic::catch_unwind(std::panic::AssertUnwindSafe(|| explore_mix(*c, *b, th.clone())));
        if std::env::var("C16_DEBUG").is_ok() {
            eprintln!("yields so far {}", YIELDS.load(Ordering::SeqCst));
            eprintln!("{} {:?} {label}: {:?} in {:?}", c.name(), b, r.as_ref().map(|x| x.0).ok(), t0.elapsed());
        }
        match r {
            Ok((n, v)) => {
                schedules.fetch_add(n, Ordering::Relaxed);
                ctx.count(&format!("schedules: {label}"), n);
                outcomes.lock().unwrap().insert(format!("{label}: {} schedules, {} divergent", n, v.len()));
                for d in v {
                    ctx.violation("a concurrent stateless call returned something else than the sequential function", format!("{} {:?} [{label}]: {d}", c.name(), b), json!({"kind": "conc", "cipher": c.name(), "backend": b, "mix": label}));
                }
            },
            Err(_) => {
                ctx.violation("a concurrent stateless call panicked or deadlocked under the controlled scheduler", format!("{} {:?} [{label}]", c.name(), b), json!({"kind": "conc", "cipher": c.name(), "backend": b, "mix": label}));
            },
        }
    }
    let n_sched = schedules.load(Ordering::Relaxed);
    ctx.add(&ctx.states, n_sched);
    ctx.add(&ctx.evaluations, n_sched);
    ctx.add(&ctx.nontrivial, n_sched);
    ctx.add(&ctx.traces, n_sched);
    ctx.add(&ctx.transitions, n_sched * 8);
    // determinism of the controlled exploration: the same mix explored twice gives the same count
    let (n1, _) = explore_mix(CipherAlg::ChaChaPoly, Backend::Default, mixes()[0].1.clone());
    let (n2, _) = explore_mix(CipherAlg::ChaChaPoly, Backend::Default, mixes()[0].1.clone());
    if n1 != n2 {
        crate::ctx::machinery(&format!("shuttle exploration is not deterministic: {n1} vs {n2} schedules"));
    }
    // labelled sample: free-running real threads on the same bodies
    let rounds = if quick { 3000 } else { 40000 };
    let mut stress_calls = 0;
    for (label, th) in mixes() {
        let (n, v) = stress_mix(CipherAlg::ChaChaPoly, Backend::Default, th.clone(), rounds);
        stress_calls += n;
        for d in v {
            ctx.violation("a concurrent stateless call returned something else than the sequential function", format!("ChaChaPoly Default [{label}] (free-running threads): {d}"), json!({"kind": "stress", "mix": label}));
        }
    }
    ctx.count("free_running_thread_calls (sample, not enumeration)", stress_calls);
    ctx.set("schedules_explored", json!(n_sched));
    ctx.sample(json!({"mix": mixes()[2].0, "threads": mixes()[2].1}));
    ctx.sample(json!({"sequential": "all 120 orders x 3 repetitions of [W(n1), W(n2), R(n1), R(n2), W(n1)]"}));
    ctx.assume("snow contains no lock, atomic or cell: there is nothing inside a segment for a scheduler to intercept; preemptions inside a segment are covered by the type system (&self, Sync, forbid(unsafe_code)), the exploration is exhaustive at cipher-call seams only");
    ctx.assume("the free-running real-thread run is a sample and is labelled so; it can only add violations, never remove them");
    *ctx.exhaustive.lock().unwrap() = Some(true);
    ctx.finish()
}

pub fn replay(case: &serde_json::Value) -> Result<(), String> {
    match case["kind"].as_str() {
        Some("conc") | Some("stress") => {
            let label = case["mix"].as_str().unwrap_or("");
            let c = CipherAlg::from_name(case["cipher"].as_str().unwrap_or("ChaChaPoly")).unwrap_or(CipherAlg::ChaChaPoly);
            let b: Backend = serde_json::from_value(case["backend"].clone()).unwrap_or(Backend::Default);
            let th = mixes().into_iter().find(|m| m.0 == label).ok_or("bad mix")?.1;
            if case["kind"] == "stress" {
                let (_, v) = stress_mix(c, b, th, 40000);
                return v.first().map_or(Ok(()), |d| Err(d.clone()));
            }
            let (_, v) = explore_mix(c, b, th);
            v.first().map_or(Ok(()), |d| Err(d.clone()))
        },
        _ => {
            // sequential cases are re-judged by running the full sequential check for that configuration
            let (cfg, _) = sess::case_from_json(case).ok_or("bad case")?;
            let ctx = Ctx::new("C16", Tier::Quick, "model_checking");
            let p = cfg.proto();
            for w in [Side::I, Side::R] {
                if p.pattern.is_oneway() && w == Side::R {
                    continue;
                }
                sequential(&ctx, &p, cfg.backend[0], w);
            }
            let v = ctx.violations.lock().unwrap();
            v.first().map_or(Ok(()), |x| Err(format!("{}: {}", x.signature, x.detail)))
        },
    }
}
