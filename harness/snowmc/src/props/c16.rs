//! C16 Stateless transport is a pure function of keys, nonce and input.
//! Sequential part (E1): round trips for a nonce alphabet x payload sizes, every order of a set
//! of calls incl. repetitions, equality with the n-th message of a stateful sender (small n) and
//! with a stateful sender moved by the nonce hook (large n).
//! Concurrent part (E3): shuttle::check_dfs (exhaustive, no sampling) over threads sharing one
//! StatelessTransportState; scheduling points are inserted by a yielding Cipher wrapper before
//! and after every inner encrypt/decrypt, so every interleaving of the pre-cipher / cipher /
//! post-cipher segments of the calls is explored. If /repo/src contains any synchronisation
//! primitive, the exploration is repeated on a copy of the sources whose std/core sync primitives
//! are mapped to shuttle's (harness-c16x), making them scheduling points too. A free-running
//! real-thread run of the same bodies is executed in addition and labelled a sample.

use super::common::*;
use crate::{
    ctx::{Ctx, Tier},
    exec::{payload_bytes, Cap, Config, Exec, Msg, Op, Side, WireMeta},
    seam::Backend,
    sess::{self, Mode},
};
use rayon::prelude::*;
use refnoise::{CipherAlg, DhAlg, HashAlg, Proto};
use serde_json::json;
use std::sync::{
    atomic::{AtomicU64, Ordering},
    Mutex,
};

// ---------------------------------------------------------------------------------------------
// sequential part

fn seq_cfg(p: &Proto, b: Backend) -> Config {
    let mut c = Config::honest(p, 0);
    c.backend = [b, b];
    c.crypto_oracle = false;
    c
}

fn t_wires(e: &Exec, s: Side) -> Vec<(u64, usize, Vec<u8>)> {
    e.wires[s.idx()].iter().filter_map(|w| if let WireMeta::T { nonce, plen, .. } = w.meta { Some((nonce, plen, w.bytes.clone())) } else { None }).collect()
}

fn sequential(ctx: &Ctx, p: &Proto, b: Backend, writer: Side) {
    let cfg = seq_cfg(p, b);
    let label = format!("{} {:?} writer {:?}", p.name, b, writer);
    let mut hs = sess::handshake_ops(p, &[0, 0, 0, 0]);
    let hs_len = hs.len();
    let _ = hs_len;
    let reader = writer.peer();
    // (1) round trips: nonce alphabet x payload sizes, plus repeated reads of the same message
    let nonces: Vec<u64> = super::c04::nonces().into_iter().filter(|n| *n != u64::MAX).collect();
    let mut ops = hs.clone();
    ops.extend(sess::convert_ops(Mode::SS));
    for &n in &nonces {
        for plen in [0usize, 1, 64, 1000] {
            ops.push(Op::SWrite { side: writer, nonce: n, plen, cap: Cap::Roomy });
            ops.push(Op::SRead { side: reader, nonce: n, msg: Msg::Last(writer), cap: Cap::Roomy });
            ops.push(Op::SRead { side: reader, nonce: n, msg: Msg::Last(writer), cap: Cap::Roomy });
        }
    }
    // the largest payloads (and their neighbours) are payloads too - read into roomy and into exactly sized buffers
    for (j, plen) in [65519usize, 65518, 65504, 65503].into_iter().enumerate() {
        let n = [2u64, 1 << 35, u64::MAX - 1, 0][j];
        ops.push(Op::SWrite { side: writer, nonce: n, plen, cap: Cap::Roomy });
        ops.push(Op::SRead { side: reader, nonce: n, msg: Msg::Last(writer), cap: if j % 2 == 0 { Cap::Roomy } else { Cap::NeedPlus(0) } });
    }
    let e = Exec::run(&cfg, &ops);
    ctx.add(&ctx.evaluations, e.steps.len() as u64);
    ctx.add(&ctx.transitions, e.steps.len() as u64);
    ctx.add(&ctx.traces, 1);
    for (k, s) in e.steps.iter().enumerate() {
        if !s.real.is_ok() {
            ctx.violation(format!("stateless round trip fails ({})", sess::op_kind(&s.op).split('(').next().unwrap_or("")), format!("{label}: step {k} {:?} -> {}", s.op, s.real.short()), sess::case_json(&cfg, &ops[..=k]));
            return;
        }
    }
    for m in sess::filter(&e, &[crate::exec::Cat::OutBytes, crate::exec::Cat::OutLen]) {
        ctx.violation("a stateless read does not return the written payload", format!("{label}: {}", m.detail), sess::case_json(&cfg, &ops[..=m.step]));
    }
    ctx.add(&ctx.nontrivial, (nonces.len() * 4) as u64);
    // (2) every order of five calls, repeated: identical bytes whatever the order
    let first = t_wires(&e, writer);
    let find = |n: u64, plen: usize| first.iter().find(|w| w.0 == n && w.1 == plen).map(|w| w.2.clone()).unwrap();
    let (na, nb) = (5u64, 1u64 << 40);
    let (ma, mb) = (find(nonces[3], 64), find(1 << 40, 64));
    let calls = [
        Op::SWrite { side: writer, nonce: nonces[3], plen: 64, cap: Cap::Roomy },
        Op::SWrite { side: writer, nonce: 1 << 40, plen: 64, cap: Cap::Roomy },
        Op::SRead { side: reader, nonce: nonces[3], msg: Msg::Raw(ma.clone()), cap: Cap::Roomy },
        Op::SRead { side: reader, nonce: 1 << 40, msg: Msg::Raw(mb.clone()), cap: Cap::Roomy },
        Op::SWrite { side: writer, nonce: nonces[3], plen: 64, cap: Cap::Roomy },
    ];
    let _ = (na, nb);
    let mut perm: Vec<usize> = (0..5).collect();
    let mut perms = vec![];
    permute(&mut perm, 0, &mut perms);
    let mut ops2 = hs.clone();
    ops2.extend(sess::convert_ops(Mode::SS));
    for pm in &perms {
        for _rep in 0..3 {
            for k in pm {
                ops2.push(calls[*k].clone());
            }
        }
    }
    let e2 = Exec::run(&cfg, &ops2);
    ctx.add(&ctx.evaluations, e2.steps.len() as u64);
    ctx.add(&ctx.transitions, e2.steps.len() as u64);
    ctx.add(&ctx.traces, perms.len() as u64);
    ctx.count("call_orders", perms.len() as u64);
    for (n, plen, bytes) in t_wires(&e2, writer) {
        let want = if n == nonces[3] { &ma } else { &mb };
        if plen == 64 && &bytes != want {
            ctx.violation("a stateless write under the same nonce and payload produced different bytes in a different call order", format!("{label}: nonce {n:#x}"), sess::case_json(&cfg, &ops2));
            break;
        }
    }
    // the expectation of Raw reads is "not genuine" in the abstract model: judge them here directly
    for (k, s) in e2.steps.iter().enumerate() {
        if let Op::SRead { .. } = s.op {
            let okp = matches!(&s.real, crate::exec::Real::Ok(64, b) if *b == payload_bytes(64, 0x80 ^ if matches!(s.op, Op::SRead { nonce, .. } if nonce == nonces[3]) { nonces[3] as u8 } else { 0 }));
            if !okp {
                ctx.violation("a stateless read of a genuine message fails or returns other bytes depending on call order", format!("{label}: step {k} {:?} -> {}", s.op, s.real.short()), sess::case_json(&cfg, &ops2[..=k]));
                break;
            }
        }
    }
    // (2b) history independence with every buffer fit: four messages of different lengths, read (and written
    // again) in all 24 orders, with tight (exactly payload-sized / message-sized), roomy and alternating output
    // buffers - a backend that keeps scratch state between calls shows up as an order-dependent result
    {
        let items: [(u64, usize); 4] = [(3, 300), (9, 15), (1 << 33, 64), (7, 0)];
        let mut pre = hs.clone();
        pre.extend(sess::convert_ops(Mode::SS));
        for (n, plen) in items {
            pre.push(Op::SWrite { side: writer, nonce: n, plen, cap: Cap::Roomy });
        }
        let e0 = Exec::run(&cfg, &pre);
        let w0 = t_wires(&e0, writer);
        if w0.len() == 4 {
            let mut idx: Vec<usize> = (0..4).collect();
            let mut orders = vec![];
            permute(&mut idx, 0, &mut orders);
            let policies: [&[Cap]; 4] = [&[Cap::NeedPlus(0)], &[Cap::Roomy], &[Cap::NeedPlus(0), Cap::Roomy], &[Cap::NeedPlus(1), Cap::NeedPlus(0)]];
            let mut ops3 = pre.clone();
            for pol in policies {
                for ord in &orders {
                    for (j, k) in ord.iter().enumerate() {
                        let (n, plen) = items[*k];
                        let cap = pol[j % pol.len()].clone();
                        ops3.push(Op::SRead { side: reader, nonce: n, msg: Msg::Raw(w0[*k].2.clone()), cap: cap.clone() });
                        ops3.push(Op::SWrite { side: writer, nonce: n, plen, cap });
                    }
                }
            }
            let e3 = Exec::run(&cfg, &ops3);
            ctx.add(&ctx.evaluations, e3.steps.len() as u64);
            ctx.add(&ctx.transitions, e3.steps.len() as u64);
            ctx.add(&ctx.traces, (orders.len() * 4) as u64);
            ctx.count("tight_buffer_orders", (orders.len() * 4) as u64);
            let mut wi = 4; // transport wires written after the first four
            let w3 = t_wires(&e3, writer);
            for (k, s) in e3.steps.iter().enumerate().skip(pre.len()) {
                match &s.op {
                    Op::SRead { nonce, .. } => {
                        let (n, plen) = *items.iter().find(|i| i.0 == *nonce).unwrap();
                        let ok = matches!(&s.real, crate::exec::Real::Ok(l, b) if *l == plen && *b == payload_bytes(plen, 0x80 ^ (n as u8)));
                        if !ok {
                            ctx.violation("a stateless read of a genuine message fails or returns other bytes depending on earlier calls and buffer sizes", format!("{label}: step {k} nonce {n:#x} payload {plen} buffer {} -> {}", s.cap, s.real.short()), sess::case_json(&cfg, &ops3[..=k]));
                            return;
                        }
                    },
                    Op::SWrite { nonce, .. } => {
                        let orig = items.iter().position(|i| i.0 == *nonce).unwrap();
                        let same = s.real.is_ok() && w3.get(wi).map(|w| w.2 == w0[orig].2).unwrap_or(false);
                        if s.real.is_ok() {
                            wi += 1;
                        }
                        if !same {
                            ctx.violation("a stateless write under the same nonce and payload fails or produces other bytes depending on earlier calls and buffer sizes", format!("{label}: step {k} nonce {nonce:#x} buffer {} -> {}", s.cap, s.real.short()), sess::case_json(&cfg, &ops3[..=k]));
                            return;
                        }
                    },
                    _ => {},
                }
            }
            ctx.add(&ctx.nontrivial, (orders.len() * 4) as u64);
        }
    }
    // (3) the message under nonce n equals the n-th message of a stateful sender
    let mut ops_t = hs.clone();
    ops_t.extend(sess::convert_ops(Mode::TT));
    let mut ops_s = std::mem::take(&mut hs);
    ops_s.extend(sess::convert_ops(Mode::SS));
    for n in 0..=8u64 {
        ops_t.push(Op::TWrite { side: writer, plen: 10 + n as usize, cap: Cap::Roomy });
    }
    for n in (0..=8u64).rev() {
        ops_s.push(Op::SWrite { side: writer, nonce: n, plen: 10 + n as usize, cap: Cap::Roomy });
    }
    // large nonces: move the stateful sender with the hook
    let large: Vec<u64> = vec![1 << 31, (1 << 32) - 1, 1 << 32, (1 << 32) + 1, 1 << 56, 1 << 63, u64::MAX - 2, u64::MAX - 1, 0x0102_0304_0506_0708];
    for (k, &n) in large.iter().enumerate() {
        ops_t.push(Op::SetSendNonce { side: writer, n });
        ops_t.push(Op::TWrite { side: writer, plen: 30 + k, cap: Cap::Roomy });
        ops_s.push(Op::SWrite { side: writer, nonce: n, plen: 30 + k, cap: Cap::Roomy });
    }
    // after manual rekeys (a different key per direction, installed through each of the three entry points)
    // and after automatic rekeys the two modes must still agree: the session keys are the same function of
    // the same calls
    for (k, rk) in [
        Op::RekeyInitManual { side: writer, k: 1 },
        Op::RekeyRespManual { side: writer, k: 2 },
        Op::RekeyManual { side: writer, i: Some(3), r: Some(4) },
        Op::RekeyManual { side: writer, i: None, r: Some(5) },
        Op::RekeyOut { side: writer },
        Op::RekeyIn { side: writer },
    ]
    .into_iter()
    .enumerate()
    {
        let n = 100 + k as u64;
        ops_t.push(rk.clone());
        ops_s.push(rk);
        ops_t.push(Op::SetSendNonce { side: writer, n });
        ops_t.push(Op::TWrite { side: writer, plen: 50 + k, cap: Cap::Roomy });
        ops_s.push(Op::SWrite { side: writer, nonce: n, plen: 50 + k, cap: Cap::Roomy });
    }
    // the largest payload
    ops_t.push(Op::SetSendNonce { side: writer, n: 77 });
    ops_t.push(Op::TWrite { side: writer, plen: 65519, cap: Cap::Roomy });
    ops_s.push(Op::SWrite { side: writer, nonce: 77, plen: 65519, cap: Cap::Roomy });
    let (et, es) = (Exec::run(&cfg, &ops_t), Exec::run(&cfg, &ops_s));
    ctx.add(&ctx.evaluations, (et.steps.len() + es.steps.len()) as u64);
    ctx.add(&ctx.transitions, (et.steps.len() + es.steps.len()) as u64);
    ctx.add(&ctx.traces, 2);
    let (wt, ws) = (t_wires(&et, writer), t_wires(&es, writer));
    // the payload pattern depends on the nonce, so equal (nonce, plen) means equal input
    for (n, plen, bytes) in &wt {
        match ws.iter().find(|w| w.0 == *n && w.1 == *plen) {
            Some(w) if &w.2 == bytes => {
                ctx.add(&ctx.nontrivial, 1);
            },
            Some(_) => ctx.violation("the stateless message under nonce n differs from the stateful sender's message number n", format!("{label}: nonce {n:#x} payload {plen}"), sess::case_json(&cfg, &ops_s)),
            None => ctx.violation("the stateless sender rejected an input the stateful sender accepts (or vice versa)", format!("{label}: nonce {n:#x} payload {plen}"), sess::case_json(&cfg, &ops_s)),
        }
    }
    if wt.len() != ws.len() {
        ctx.violation("the stateless sender rejected an input the stateful sender accepts (or vice versa)", format!("{label}: {} stateful vs {} stateless messages", wt.len(), ws.len()), sess::case_json(&cfg, &ops_s));
    }
}

fn permute(a: &mut Vec<usize>, k: usize, out: &mut Vec<Vec<usize>>) {
    if k == a.len() {
        out.push(a.clone());
        return;
    }
    for i in k..a.len() {
        a.swap(k, i);
        permute(a, k + 1, out);
        a.swap(k, i);
    }
}

// ---------------------------------------------------------------------------------------------
// concurrent part

#[path = "../../../shared/c16_conc.rs"]
pub mod conc;
use conc::{explore_mix, mixes, stress_mix};

pub fn run(tier: Tier) -> i32 {
    let ctx = Ctx::new("C16", tier, "model_checking");
    let quick = ctx.quick();
    ctx.set_rule("sequential: for every cipher x backend x writer role: read(n, write(n, p)) == p for an 80-value nonce alphabet x payload sizes {0,1,64,1000}, read twice, and the payload sizes 65503/65504/65518/65519; all 120 orders of five calls x 3 repetitions give identical bytes; stateless message under n == n-th stateful message for n in 0..=8, and == the stateful message after verif_set_sending_nonce(n) for 9 large nonces (up to 2^64-2, the last usable one), and for the 65519-byte payload. concurrent: shuttle DFS over every interleaving of the pre-cipher/cipher/post-cipher segments of 2 threads x 2 calls and 3 threads x 1 call on a shared StatelessTransportState (7 call mixes, one of them reading into exactly payload-sized buffers, x ciphers x backends), every call's result compared with the sequential function; states = schedules explored");
    // sequential
    let mut seq_jobs = vec![];
    for (c, b) in cipher_backends() {
        for (pat, w) in [("NN", Side::I), ("NN", Side::R), ("N", Side::I)] {
            seq_jobs.push((proto(pat, &[], DhAlg::X25519, c, HashAlg::Blake2s), b, w));
        }
    }
    seq_jobs.par_iter().for_each(|(p, b, w)| sequential(&ctx, p, *b, *w));
    ctx.count("sequential_instances", seq_jobs.len() as u64);
    // concurrent (shuttle's runner is itself sequential per exploration; explorations are independent)
    let mut conc_jobs = vec![];
    for (c, b) in cipher_backends() {
        if quick && !(b == Backend::Default || c == CipherAlg::AesGcm) {
            continue;
        }
        for (label, th) in mixes() {
            // the 25 424-schedule 3-thread mix runs for one cipher in the quick tier, for all in thorough
            if quick && label.starts_with("3x1 write") && !(c == CipherAlg::ChaChaPoly && b == Backend::Default) {
                continue;
            }
            conc_jobs.push((c, b, label, th));
        }
    }
    let schedules = AtomicU64::new(0);
    let outcomes = Mutex::new(std::collections::BTreeSet::new());
    // shuttle uses global state for the yield switch: run the explorations one after the other
    for (c, b, label, th) in &conc_jobs {
        let t0 = std::time::Instant::now();
        let r = std::panic::catch_unwind(std::panic::AssertUnwindSafe(|| explore_mix(c.name(), *b == Backend::Ring, th.clone())));
        if std::env::var("C16_DEBUG").is_ok() {
            eprintln!("{} {:?} {label}: {:?} in {:?}", c.name(), b, r.as_ref().map(|x| x.0).ok(), t0.elapsed());
        }
        match r {
            Ok((n, v)) => {
                schedules.fetch_add(n, Ordering::Relaxed);
                ctx.count(&format!("schedules: {label}"), n);
                outcomes.lock().unwrap().insert(format!("{label}: {} schedules, {} divergent", n, v.len()));
                for d in v {
                    ctx.violation("a concurrent stateless call returned something else than the sequential function", format!("{} {:?} [{label}]: {d}", c.name(), b), json!({"kind": "conc", "cipher": c.name(), "backend": b, "mix": label}));
                }
            },
            Err(_) => {
                ctx.violation("a concurrent stateless call panicked or deadlocked under the controlled scheduler", format!("{} {:?} [{label}]", c.name(), b), json!({"kind": "conc", "cipher": c.name(), "backend": b, "mix": label}));
            },
        }
    }
    let n_sched = schedules.load(Ordering::Relaxed);
    ctx.add(&ctx.states, n_sched);
    ctx.add(&ctx.evaluations, n_sched);
    ctx.add(&ctx.nontrivial, n_sched);
    ctx.add(&ctx.traces, n_sched);
    ctx.add(&ctx.transitions, n_sched * 8);
    // determinism of the controlled exploration: the same mix explored twice gives the same count
    let (n1, _) = explore_mix("ChaChaPoly", false, mixes()[0].1.clone());
    let (n2, _) = explore_mix("ChaChaPoly", false, mixes()[0].1.clone());
    if n1 != n2 {
        crate::ctx::machinery(&format!("shuttle exploration is not deterministic: {n1} vs {n2} schedules"));
    }
    // Synchronisation primitives *inside* snow (none on the pinned tree): when /repo/src mentions any,
    // the exploration is repeated on a copy of the sources in which std/core sync primitives are mapped
    // to shuttle's, so that every atomic / lock operation inside snow is a scheduling point.
    let (files, hits) = scan_sync_primitives(&std::env::var("SNOW_REPO_SRC").unwrap_or_else(|_| "/repo/src".to_string()));
    ctx.set("repo_src_files_scanned_for_sync_primitives", json!(files));
    ctx.set("repo_src_sync_primitive_mentions", json!(hits));
    if !hits.is_empty() || !quick {
        match run_mapped_copy(if quick { "quick" } else { "thorough" }) {
            Ok(v) => {
                let n = v["schedules"].as_u64().unwrap_or(0);
                ctx.add(&ctx.states, n);
                ctx.add(&ctx.evaluations, n);
                ctx.add(&ctx.traces, n);
                ctx.count("schedules: shuttle-mapped copy of snow (sync primitives inside snow are scheduling points)", n);
                for d in v["violations"].as_array().cloned().unwrap_or_default() {
                    ctx.violation("a concurrent stateless call returned something else than the sequential function (interleaving at a synchronisation primitive inside snow)", d.as_str().unwrap_or("").to_string(), json!({"kind": "mapped"}));
                }
            },
            Err(e) => ctx.note(format!("shuttle-mapped copy not explored: {e} (not a verdict; the seam-level exploration and the free-running sample still ran)")),
        }
    } else {
        ctx.note("no std/core/alloc sync primitive, thread_local or static mut in /repo/src: the shuttle-mapped copy would be identical to snow itself; not rebuilt in the quick tier");
    }
    // labelled sample: free-running real threads on the same bodies
    let rounds = if quick { 3000 } else { 40000 };
    let mut stress_calls = 0;
    for (label, th) in mixes() {
        for (cn, ring) in [("ChaChaPoly", false), ("AESGCM", true)] {
            let (n, v) = stress_mix(cn, ring, th.clone(), rounds);
            stress_calls += n;
            for d in v {
                ctx.violation("a concurrent stateless call returned something else than the sequential function", format!("{cn} {} [{label}] (free-running threads): {d}", if ring { "Ring" } else { "Default" }), json!({"kind": "stress", "mix": label, "cipher": cn, "backend": if ring { Backend::Ring } else { Backend::Default }}));
            }
        }
    }
    ctx.count("free_running_thread_calls (sample, not enumeration)", stress_calls);
    ctx.set("schedules_explored", json!(n_sched));
    ctx.sample(json!({"mix": mixes()[2].0, "threads": format!("{:?}", mixes()[2].1)}));
    ctx.sample(json!({"sequential": "all 120 orders x 3 repetitions of [W(n1), W(n2), R(n1), R(n2), W(n1)]"}));
    ctx.assume("snow contains no lock, atomic or cell: there is nothing inside a segment for a scheduler to intercept; preemptions inside a segment are covered by the type system (&self, Sync, forbid(unsafe_code)), the exploration is exhaustive at cipher-call seams only");
    ctx.assume("the free-running real-thread run is a sample and is labelled so; it can only add violations, never remove them");
    *ctx.exhaustive.lock().unwrap() = Some(true);
    ctx.finish()
}

/// (number of files, lines that mention a synchronisation primitive)
pub fn scan_sync_primitives(dir: &str) -> (usize, Vec<String>) {
    let mut files = 0;
    let mut hits = vec![];
    let mut stack = vec![std::path::PathBuf::from(dir)];
    let pats = ["::sync::", "std::thread", "thread_local!", "static mut", "lazy_static", "OnceCell", "OnceLock", "AtomicU", "AtomicI", "AtomicBool", "AtomicPtr", "Mutex", "RwLock"];
    while let Some(d) = stack.pop() {
        let Ok(rd) = std::fs::read_dir(&d) else { continue };
        for e in rd.flatten() {
            let p = e.path();
            if p.is_dir() {
                stack.push(p);
            } else if p.extension().map_or(false, |x| x == "rs") {
                files += 1;
                if let Ok(t) = std::fs::read_to_string(&p) {
                    for (k, l) in t.lines().enumerate() {
                        let code = l.split("//").next().unwrap_or("");
                        if pats.iter().any(|x| code.contains(x)) && hits.len() < 20 {
                            hits.push(format!("{}:{}: {}", p.display(), k + 1, l.trim()));
                        }
                    }
                }
            }
        }
    }
    (files, hits)
}

pub fn run_mapped_copy(tier: &str) -> Result<serde_json::Value, String> {
    let out = std::process::Command::new(format!("{}/harness-c16x/run.sh", *crate::ctx::VERIF_DIR)).arg(tier).output().map_err(|e| e.to_string())?;
    let text = String::from_utf8_lossy(&out.stdout);
    let line = text.lines().rev().find(|l| l.starts_with('{')).ok_or("no result")?;
    let v: serde_json::Value = serde_json::from_str(line).map_err(|e| e.to_string())?;
    match v.get("error") {
        Some(e) => Err(e.as_str().unwrap_or("error").to_string()),
        None => Ok(v),
    }
}

pub fn replay(case: &serde_json::Value) -> Result<(), String> {
    if case["kind"] == "mapped" {
        let v = run_mapped_copy("quick")?;
        return match v["violations"].as_array().and_then(|a| a.first()) {
            Some(d) => Err(d.as_str().unwrap_or("").to_string()),
            None => Ok(()),
        };
    }
    match case["kind"].as_str() {
        Some("conc") | Some("stress") => {
            let label = case["mix"].as_str().unwrap_or("");
            let c = CipherAlg::from_name(case["cipher"].as_str().unwrap_or("ChaChaPoly")).unwrap_or(CipherAlg::ChaChaPoly);
            let b: Backend = serde_json::from_value(case["backend"].clone()).unwrap_or(Backend::Default);
            let th = mixes().into_iter().find(|m| m.0 == label).ok_or("bad mix")?.1;
            if case["kind"] == "stress" {
                let (_, v) = stress_mix(c.name(), b == Backend::Ring, th, 40000);
                return v.first().map_or(Ok(()), |d| Err(d.clone()));
            }
            let (_, v) = explore_mix(c.name(), b == Backend::Ring, th);
            v.first().map_or(Ok(()), |d| Err(d.clone()))
        },
        _ => {
            // sequential cases are re-judged by running the full sequential check for that configuration
            let (cfg, _) = sess::case_from_json(case).ok_or("bad case")?;
            let ctx = Ctx::new("C16", Tier::Quick, "model_checking");
            let p = cfg.proto();
            for w in [Side::I, Side::R] {
                if p.pattern.is_oneway() && w == Side::R {
                    continue;
                }
                sequential(&ctx, &p, cfg.backend[0], w);
            }
            let v = ctx.violations.lock().unwrap();
            v.first().map_or(Ok(()), |x| Err(format!("{}: {}", x.signature, x.detail)))
        },
    }
}
