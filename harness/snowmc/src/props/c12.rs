//! C12 Builder accepts exactly the configurations the pattern needs (E1, finite, complete).
//! Requirements are derived from the specification's pattern text by refnoise, not from snow's
//! two hand-written tables.

use crate::{
    ctx::{Ctx, Tier},
    exec::{key_bytes, psk_bytes},
};
use rayon::prelude::*;
use refnoise::{patterns, DhAlg, Pattern, Tok};
use serde::{Deserialize, Serialize};
use serde_json::json;
use snow::{
    error::{Error, InitStage, PatternProblem, Prerequisite, StateProblem},
    params::{CipherChoice, DHChoice, HashChoice, NoiseParams},
    resolvers::{BoxedCryptoResolver, CryptoResolver, DefaultResolver, FallbackResolver},
    types::{Cipher, Dh, Hash, Random},
    Builder, HandshakeState,
};
use std::panic::{catch_unwind, AssertUnwindSafe};

#[derive(Clone, Copy, PartialEq, Eq, Debug, Serialize, Deserialize)]
pub enum Res {
    Complete,
    NoRng,
    NoDh,
    NoCipher,
    NoHash,
    /// FallbackResolver(only rng+dh, only cipher+hash): complete as a whole
    SplitFallback,
    /// FallbackResolver(no cipher, no cipher): lacks the cipher
    FallbackNoCipher,
}

struct Partial {
    rng: bool,
    dh: bool,
    cipher: bool,
    hash: bool,
}
impl CryptoResolver for Partial {
    fn resolve_rng(&self) -> Option<Box<dyn Random>> {
        if self.rng {
            DefaultResolver.resolve_rng()
        } else {
            None
        }
    }
    fn resolve_dh(&self, c: &DHChoice) -> Option<Box<dyn Dh>> {
        if self.dh {
            DefaultResolver.resolve_dh(c)
        } else {
            None
        }
    }
    fn resolve_hash(&self, c: &HashChoice) -> Option<Box<dyn Hash>> {
        if self.hash {
            DefaultResolver.resolve_hash(c)
        } else {
            None
        }
    }
    fn resolve_cipher(&self, c: &CipherChoice) -> Option<Box<dyn Cipher>> {
        if self.cipher {
            DefaultResolver.resolve_cipher(c)
        } else {
            None
        }
    }
}

fn resolver(r: Res) -> BoxedCryptoResolver {
    let p = |rng, dh, cipher, hash| Box::new(Partial { rng, dh, cipher, hash });
    match r {
        Res::Complete => Box::new(DefaultResolver),
        Res::NoRng => p(false, true, true, true),
        Res::NoDh => p(true, false, true, true),
        Res::NoCipher => p(true, true, false, true),
        Res::NoHash => p(true, true, true, false),
        Res::SplitFallback => Box::new(FallbackResolver::new(p(true, true, false, false), p(false, false, true, true))),
        Res::FallbackNoCipher => Box::new(FallbackResolver::new(p(true, true, false, true), p(true, false, false, true))),
    }
}

#[derive(Clone, Debug, Serialize, Deserialize)]
pub struct Case {
    pub pattern: String,
    pub mods: String,
    pub dh: String,
    pub initiator: bool,
    pub local: bool,
    pub remote: bool,
    /// psk slots supplied at build time
    pub psks: Vec<u8>,
    pub res: Res,
}

fn build(c: &Case) -> Result<Result<HandshakeState, Error>, String> {
    let name = format!("Noise_{}{}_{}_ChaChaPoly_SHA256", c.pattern, c.mods, c.dh);
    let dh = DhAlg::from_name(&c.dh).unwrap_or(DhAlg::X25519);
    let sk = key_bytes(if c.initiator { 1 } else { 2 });
    let peer_pk = dh.pubkey(&key_bytes(if c.initiator { 2 } else { 1 })).unwrap();
    let psk_store: Vec<[u8; 32]> = (0..10).map(|i| psk_bytes(i, 0)).collect();
    catch_unwind(AssertUnwindSafe(|| {
        let params: NoiseParams = name.parse()?;
        let mut b = Builder::with_resolver(params, resolver(c.res));
        if c.local {
            b = b.local_private_key(&sk)?;
        }
        if c.remote {
            b = b.remote_public_key(&peer_pk)?;
        }
        for p in &c.psks {
            b = b.psk(*p, &psk_store[usize::from(*p)])?;
        }
        if c.initiator {
            b.build_initiator()
        } else {
            b.build_responder()
        }
    }))
    .map_err(|_| "panic".to_string())
}

/// Acceptable error kinds per cause; Ok expected iff no cause applies.
fn causes(c: &Case, pat: &Pattern) -> Vec<&'static str> {
    let mut v = vec![];
    if pat.role_uses_own_static(c.initiator) && !c.local {
        v.push("Prereq(LocalPrivateKey)");
    }
    if pat.role_needs_remote_static(c.initiator) && !c.remote {
        v.push("Prereq(RemotePublicKey)");
    }
    match c.res {
        Res::NoRng => {}, // see soft_causes
        Res::NoDh => v.push("Init(GetDhImpl)"),
        Res::NoCipher | Res::FallbackNoCipher => v.push("Init(GetCipherImpl)"),
        Res::NoHash => v.push("Init(GetHashImpl)"),
        _ => {},
    }
    for m in c.mods.split('+').filter(|m| !m.is_empty()) {
        if m == "fallback" {
            v.push("Pattern(UnsupportedModifier)");
        } else if let Some(n) = m.strip_prefix("psk") {
            if n.parse::<usize>().unwrap() > pat.msgs.len() {
                v.push("Pattern(InvalidPsk)");
            }
        }
    }
    v
}

/// Circumstances under which the build may fail or succeed, as far as the property goes: a resolver without a
/// random source (the RNG is not a primitive the protocol name names; snow refuses such a resolver at build time,
/// a snow that fell back to a default source or asked for it lazily would satisfy the property just as well), and
/// Curve448, which the name grammar knows and no built-in resolver provides today.
fn soft_causes(c: &Case) -> bool {
    c.res == Res::NoRng || c.dh == "448"
}

fn err_name(e: &Error) -> String {
    match e {
        Error::Prereq(Prerequisite::LocalPrivateKey) => "Prereq(LocalPrivateKey)".into(),
        Error::Prereq(Prerequisite::RemotePublicKey) => "Prereq(RemotePublicKey)".into(),
        Error::Init(InitStage::GetRngImpl) => "Init(GetRngImpl)".into(),
        Error::Init(InitStage::GetDhImpl) => "Init(GetDhImpl)".into(),
        Error::Init(InitStage::GetCipherImpl) => "Init(GetCipherImpl)".into(),
        Error::Init(InitStage::GetHashImpl) => "Init(GetHashImpl)".into(),
        Error::Pattern(PatternProblem::InvalidPsk) => "Pattern(InvalidPsk)".into(),
        Error::Pattern(PatternProblem::UnsupportedModifier) => "Pattern(UnsupportedModifier)".into(),
        other => format!("{other:?}"),
    }
}

pub fn judge_build(c: &Case) -> Result<bool, (String, String)> {
    let pat = patterns::base_patterns().into_iter().find(|p| p.name == c.pattern).unwrap();
    let want = causes(c, &pat);
    let role = if c.initiator { "initiator" } else { "responder" };
    match build(c) {
        Err(_) => Err((format!("build_{role} panicked"), format!("{c:?}"))),
        Ok(Ok(_)) => {
            if want.is_empty() {
                Ok(!soft_causes(c))
            } else {
                Err((format!("build_{role} succeeded although {} applies", want[0]), format!("{c:?}")))
            }
        },
        Ok(Err(e)) => {
            let got = err_name(&e);
            if want.is_empty() && soft_causes(c) {
                Ok(false)
            } else if want.is_empty() {
                Err((format!("build_{role} failed with {got} although everything the pattern needs was supplied"), format!("{c:?}")))
            } else {
                // the property asks for "a descriptive error at build time", not for a particular variant:
                // any Err is accepted (the documented variant is `want`)
                let _ = want.contains(&got.as_str());
                Ok(false)
            }
        },
    }
}

fn psk_mods(n_msgs: usize) -> Vec<(String, Vec<u8>)> {
    let mut v = vec![(String::new(), vec![])];
    for i in 0..=9u8 {
        v.push((format!("psk{i}"), vec![i]));
    }
    for i in 0..=n_msgs as u8 {
        for j in (i + 1)..=n_msgs as u8 {
            v.push((format!("psk{i}+psk{j}"), vec![i, j]));
        }
    }
    v.push(("fallback".into(), vec![]));
    v.push(("fallback+psk0".into(), vec![0]));
    v.push(("psk1+fallback".into(), vec![1]));
    v
}

// ---- honest handshakes of successfully built pairs -------------------------------------------

#[derive(Clone, Debug, Serialize, Deserialize)]
pub struct PairCase {
    pub pattern: String,
    pub psks: Vec<u8>,
    pub dh: String,
    /// extra keys the pattern does not need are supplied as well
    pub extra_keys: bool,
    /// (side 0 = initiator / 1 = responder, psk index) left out at build time
    pub omit: Option<(usize, u8)>,
    /// what the peer of the omitting side is given: false = the real psk, true = an all-zero psk
    pub peer_zero: bool,
    /// supply the omitted psk with set_psk after the MissingPsk error
    pub late_set: bool,
    /// before the first message the omitting side makes set_psk calls that must be refused (0 = none; 1 = a 31-byte
    /// key, 2 = a 33-byte key, 3 = an empty key for the omitted slot; 4 = a good key for a location past the last
    /// slot): a refused call supplies nothing, so the PSK is still "not supplied" afterwards
    #[serde(default)]
    pub refused_set: u8,
}


/// A handshake in which one PSK was left out must run exactly like the complete one up to the message that needs
/// that PSK. A failure before that message (while the same handshake with nothing omitted completes) means the
/// omission surfaced at the wrong place and as the wrong error.
fn early_failure(c: &PairCase, k: usize, need_at: &dyn Fn(u8) -> usize, what: &str, detail: &str) -> Result<(), (String, String)> {
    let Some((_, p)) = c.omit else { return Ok(()) };
    if k >= need_at(p) {
        return Ok(());
    }
    let mut control = c.clone();
    control.omit = None;
    control.peer_zero = false;
    control.late_set = false;
    control.refused_set = 0;
    if run_pair(&control).is_err() {
        return Ok(()); // the complete handshake has its own problem: not this clause's business
    }
    Err(("a handshake with one PSK left out fails before the message that needs it (the omission must be reported there)".into(), format!("{detail}: {what}; psk{p} is first needed by message {}", need_at(p))))
}

fn run_pair(c: &PairCase) -> Result<(), (String, String)> {
    let pat = patterns::base_patterns().into_iter().find(|p| p.name == c.pattern).unwrap();
    let dh = DhAlg::from_name(&c.dh).unwrap();
    let mods: Vec<String> = c.psks.iter().map(|p| format!("psk{p}")).collect();
    let name = format!("Noise_{}{}_{}_AESGCM_BLAKE2s", c.pattern, mods.join("+"), c.dh);
    let sk = [key_bytes(1), key_bytes(2)];
    let pk = [dh.pubkey(&sk[0]).unwrap(), dh.pubkey(&sk[1]).unwrap()];
    let zero = [0u8; 32];
    let store: Vec<[u8; 32]> = (0..10).map(|i| psk_bytes(i, 0)).collect();
    let mk = |side: usize| -> Result<HandshakeState, Error> {
        let init = side == 0;
        let mut b = Builder::new(name.parse()?);
        if pat.role_uses_own_static(init) || c.extra_keys {
            b = b.local_private_key(&sk[side])?;
        }
        if pat.role_needs_remote_static(init) || c.extra_keys {
            b = b.remote_public_key(&pk[1 - side])?;
        }
        for p in &c.psks {
            if c.omit == Some((side, *p)) {
                continue;
            }
            let zeroed = c.peer_zero && c.omit.map_or(false, |(s, q)| s != side && q == *p);
            b = b.psk(*p, if zeroed { &zero } else { &store[usize::from(*p)] })?;
        }
        if init {
            b.build_initiator()
        } else {
            b.build_responder()
        }
    };
    let detail = format!("{c:?}");
    let (mut hi, mut hr) = match catch_unwind(AssertUnwindSafe(|| (mk(0), mk(1)))) {
        Ok((Ok(a), Ok(b))) => (a, b),
        Ok((a, b)) => return Err(("an honest pair failed to build".into(), format!("{detail}: {:?} / {:?}", a.err(), b.err()))),
        Err(_) => return Err(("build panicked".into(), detail)),
    };
    // refused set_psk calls on the omitting side: whatever they return, they must not supply a PSK
    if let (Some((s, p)), rf @ 1..=4) = (c.omit, c.refused_set) {
        let h = if s == 0 { &mut hi } else { &mut hr };
        let key = store[usize::from(p)];
        let r = catch_unwind(AssertUnwindSafe(|| match rf {
            1 => h.set_psk(usize::from(p), &key[..31]),
            2 => h.set_psk(usize::from(p), &[&key[..], &[0u8][..]].concat()),
            3 => h.set_psk(usize::from(p), &[]),
            _ => h.set_psk(10, &key),
        })).map_err(|_| ("set_psk panicked".to_string(), detail.clone()))?;
        if r.is_ok() {
            return Ok(()); // accepted: then a PSK was supplied after all, and this clause has nothing to judge
        }
    }
    // message index (0-based) at which `side` first needs psk p
    let need_at = |p: u8| -> usize { pat.with_psks(&c.psks).unwrap().msgs.iter().position(|m| m.contains(&Tok::Psk(p))).unwrap() };
    let mut buf = vec![0u8; 4096];
    let mut out = vec![0u8; 4096];
    for k in 0..pat.msgs.len() {
        let (w, r, ws) = if k % 2 == 0 { (&mut hi, &mut hr, 0usize) } else { (&mut hr, &mut hi, 1usize) };
        let rs_ = 1 - ws;
        // writer
        let mut res = catch_unwind(AssertUnwindSafe(|| w.write_message(b"pay", &mut buf))).map_err(|_| ("write_message panicked".to_string(), detail.clone()))?;
        if let Some((s, p)) = c.omit {
            if s == ws && need_at(p) == k {
                match &res {
                    Err(_) => {}, // documented: State(MissingPsk); the property only says "reported as an error"
                    other => return Err(("a PSK that was not supplied is not reported as an error at the message that needs it (write)".into(), format!("{detail}: message {k}: {other:?}"))),
                }
                if !c.late_set {
                    return Ok(());
                }
                w.set_psk(usize::from(p), &store[usize::from(p)]).map_err(|e| ("set_psk failed".to_string(), format!("{detail}: {e:?}")))?;
                res = w.write_message(b"pay", &mut buf);
            }
        }
        let n = match res {
            Ok(n) => n,
            Err(Error::State(StateProblem::MissingKeyMaterial)) => return Err(("a successfully built pair failed later for missing key material".into(), format!("{detail}: write of message {k}"))),
            Err(Error::State(StateProblem::MissingPsk)) => return Err(("a PSK that was supplied is reported missing later".into(), format!("{detail}: write of message {k}"))),
            Err(e) => return early_failure(c, k, &need_at, &format!("write of message {k}: {e:?}"), &detail),
        };
        // reader
        let mut res = catch_unwind(AssertUnwindSafe(|| r.read_message(&buf[..n], &mut out))).map_err(|_| ("read_message panicked".to_string(), detail.clone()))?;
        if let Some((s, p)) = c.omit {
            if s == rs_ && need_at(p) == k {
                match &res {
                    Err(_) => {},
                    other => return Err(("a PSK that was not supplied is not reported as an error at the message that needs it (read)".into(), format!("{detail}: message {k}: {other:?}"))),
                }
                if !c.late_set {
                    return Ok(());
                }
                r.set_psk(usize::from(p), &store[usize::from(p)]).map_err(|e| ("set_psk failed".to_string(), format!("{detail}: {e:?}")))?;
                res = r.read_message(&buf[..n], &mut out);
            }
        }
        match res {
            Ok(_) => {},
            Err(Error::State(StateProblem::MissingKeyMaterial)) => return Err(("a successfully built pair failed later for missing key material".into(), format!("{detail}: read of message {k}"))),
            Err(Error::State(StateProblem::MissingPsk)) => return Err(("a PSK that was supplied is reported missing later".into(), format!("{detail}: read of message {k}"))),
            Err(e) => {
                // with an all-zero substitute psk failing is the right answer; any other failure of an honest
                // handshake is C02's (or, after a late set_psk, C07's) business - unless it happens BEFORE the message
                // that needs the omitted psk: then the omission was not reported where it belongs
                if c.peer_zero {
                    return Ok(());
                }
                return early_failure(c, k, &need_at, &format!("read of message {k}: {e:?}"), &detail);
            },
        }
    }
    if c.peer_zero {
        return Err(("a handshake completed although one side used an all-zero PSK in place of the missing one".into(), detail));
    }
    Ok(())
}


/// The ring backend as the only source of ciphers and hashes (DH and RNG from a partial default resolver): a name
/// is buildable iff ring documents both its cipher and its hash, the refusal comes at build time, and what was
/// built really speaks the named protocol (it completes a handshake with a default-resolver peer).
fn ring_only_builds(ctx: &Ctx) {
    use snow::resolvers::RingResolver;
    for c in ["ChaChaPoly", "AESGCM", "XChaChaPoly"] {
        for h in ["SHA256", "SHA512", "BLAKE2s", "BLAKE2b"] {
            for pat in ["NN", "XX", "NNpsk0"] {
                let name = format!("Noise_{pat}_25519_{c}_{h}");
                // does the resolver provide the named cipher and hash? Asked of the resolver itself (which
                // primitives the ring backend offers is not this property's business; that what it offers is
                // the named primitive is checked below and in the built-in table)
                let documented = std::panic::catch_unwind(|| {
                    let Ok(params) = name.parse::<snow::params::NoiseParams>() else { return false };
                    RingResolver.resolve_cipher(&params.cipher).is_some() && RingResolver.resolve_hash(&params.hash).is_some()
                })
                .unwrap_or(false);
                ctx.add(&ctx.evaluations, 1);
                let mk = |ring: bool, init: bool| -> Result<snow::HandshakeState, snow::Error> {
                    let res: BoxedCryptoResolver = if ring { Box::new(FallbackResolver::new(Box::new(RingResolver), Box::new(Partial { rng: true, dh: true, cipher: false, hash: false }))) } else { Box::new(DefaultResolver) };
                    let mut b = Builder::with_resolver(name.parse()?, res);
                    let sk = crate::exec::key_bytes(if init { 1 } else { 2 });
                    if pat == "XX" {
                        b = b.local_private_key(&sk)?;
                    }
                    if pat == "NNpsk0" {
                        b = b.psk(0, &[9u8; 32])?;
                    }
                    if init {
                        b.build_initiator()
                    } else {
                        b.build_responder()
                    }
                };
                let r = std::panic::catch_unwind(std::panic::AssertUnwindSafe(|| mk(true, true)));
                match (r, documented) {
                    (Ok(Err(_)), false) => {
                        ctx.add(&ctx.nontrivial, 1);
                    },
                    (Ok(Ok(_)), false) => ctx.violation("build succeeded although the resolver does not provide a named primitive", format!("{name} with ring as the only source of ciphers and hashes"), json!({"kind": "ring-only"})),
                    (Ok(Err(e)), true) => ctx.violation("build failed although the resolver provides every named primitive", format!("{name} with ring ciphers and hashes: {e:?}"), json!({"kind": "ring-only"})),
                    (Ok(Ok(mut i)), true) => {
                        ctx.add(&ctx.nontrivial, 1);
                        // what was built must be the named protocol: talk to a default-resolver responder
                        let ok = (|| -> Result<(), snow::Error> {
                            let mut r = mk(false, false)?;
                            let (mut m, mut o) = (vec![0u8; 1024], vec![0u8; 1024]);
                            let n_msgs = if pat == "XX" { 3 } else { 2 };
                            for k in 0..n_msgs {
                                if k % 2 == 0 {
                                    let l = i.write_message(b"x", &mut m)?;
                                    r.read_message(&m[..l], &mut o)?;
                                } else {
                                    let l = r.write_message(b"y", &mut m)?;
                                    i.read_message(&m[..l], &mut o)?;
                                }
                            }
                            let (mut ti, mut tr) = (i.into_transport_mode()?, r.into_transport_mode()?);
                            let l = ti.write_message(b"ping", &mut m)?;
                            tr.read_message(&m[..l], &mut o)?;
                            Ok(())
                        })();
                        if let Err(e) = ok {
                            ctx.violation("a state built from a resolver that claims every named primitive does not speak the named protocol", format!("{name} with ring ciphers and hashes against a default-resolver peer: {e:?}"), json!({"kind": "ring-only"}));
                        }
                    },
                    (Err(_), _) => {}, // a panic is C10's business
                }
            }
        }
    }
}

pub fn run(tier: Tier) -> i32 {
    let ctx = Ctx::new("C12", tier, "model_checking");
    ctx.set_rule("finite product enumerated completely: 38 patterns x 2 roles x 4 subsets of {local static, remote static} x psk modifier (none, psk0..psk9, every valid pair, fallback forms) x subsets of the listed psks supplied at build x 7 resolvers (complete, lacking rng/dh/cipher/hash, two FallbackResolver compositions) x DH {25519, P256, 448}; oracle derived from the spec pattern text; the built-in resolvers themselves: DefaultResolver / RingResolver provide exactly their documented primitives and hand out the named ones, and with ring as the only source of ciphers and hashes a name builds iff ring documents both (and then talks to a default-resolver peer); then the honest handshake of every successfully built pair (no MissingKeyMaterial), psk omitted on either side (MissingPsk exactly at the message that needs it, all-zero substitute must not complete, set_psk then completes; the same after a refused set_psk for that slot - 31-, 33-, 0-byte key, location past the last slot - which supplies nothing)");
    ring_only_builds(&ctx);
    super::c20::builtin_table(&ctx);
    let pats = patterns::base_patterns();
    let mut cases: Vec<Case> = vec![];
    let dhs: &[&str] = &["25519", "P256"];
    for p in &pats {
        for (mods, idxs) in psk_mods(p.msgs.len()) {
            // subsets of the listed psks supplied at build
            let subsets: Vec<Vec<u8>> = (0..(1u32 << idxs.len())).map(|m| idxs.iter().enumerate().filter(|(k, _)| m & (1 << k) != 0).map(|(_, v)| *v).collect()).collect();
            for initiator in [true, false] {
                for local in [false, true] {
                    for remote in [false, true] {
                        for psks in &subsets {
                            for dh in dhs {
                                cases.push(Case { pattern: p.name.clone(), mods: mods.clone(), dh: (*dh).into(), initiator, local, remote, psks: psks.clone(), res: Res::Complete });
                            }
                        }
                        if idxs.len() <= 1 {
                            for res in [Res::NoRng, Res::NoDh, Res::NoCipher, Res::NoHash, Res::SplitFallback, Res::FallbackNoCipher] {
                                cases.push(Case { pattern: p.name.clone(), mods: mods.clone(), dh: "25519".into(), initiator, local, remote, psks: idxs.clone(), res });
                            }
                        }
                        if mods.is_empty() {
                            cases.push(Case { pattern: p.name.clone(), mods: mods.clone(), dh: "448".into(), initiator, local, remote, psks: vec![], res: Res::Complete });
                        }
                    }
                }
            }
        }
    }
    let ok = std::sync::atomic::AtomicU64::new(0);
    let rejected = std::sync::atomic::AtomicU64::new(0);
    cases.par_iter().for_each(|c| {
        ctx.add(&ctx.evaluations, 1);
        match judge_build(c) {
            Ok(true) => {
                ok.fetch_add(1, std::sync::atomic::Ordering::Relaxed);
            },
            Ok(false) => {
                rejected.fetch_add(1, std::sync::atomic::Ordering::Relaxed);
            },
            Err((sig, d)) => ctx.violation(sig, d, json!({"kind": "build", "case": c})),
        }
    });
    ctx.count("builds", cases.len() as u64);
    ctx.count("builds_ok", ok.load(std::sync::atomic::Ordering::Relaxed));
    ctx.count("builds_rejected_as_expected", rejected.load(std::sync::atomic::Ordering::Relaxed));
    // pairs
    let mut pairs: Vec<PairCase> = vec![];
    for p in &pats {
        for ps in patterns::psk_subsets(p.msgs.len()) {
            for dh in dhs {
                for extra in [false, true] {
                    pairs.push(PairCase { pattern: p.name.clone(), psks: ps.clone(), dh: (*dh).into(), extra_keys: extra, omit: None, peer_zero: false, late_set: false, refused_set: 0 });
                }
                for q in &ps {
                    for side in 0..2 {
                        pairs.push(PairCase { pattern: p.name.clone(), psks: ps.clone(), dh: (*dh).into(), extra_keys: false, omit: Some((side, *q)), peer_zero: false, late_set: false, refused_set: 0 });
                        for rf in 1..=4u8 {
                            pairs.push(PairCase { pattern: p.name.clone(), psks: ps.clone(), dh: (*dh).into(), extra_keys: false, omit: Some((side, *q)), peer_zero: false, late_set: rf % 2 == 0, refused_set: rf });
                            pairs.push(PairCase { pattern: p.name.clone(), psks: ps.clone(), dh: (*dh).into(), extra_keys: false, omit: Some((side, *q)), peer_zero: true, late_set: true, refused_set: rf });
                        }
                        pairs.push(PairCase { pattern: p.name.clone(), psks: ps.clone(), dh: (*dh).into(), extra_keys: false, omit: Some((side, *q)), peer_zero: false, late_set: true, refused_set: 0 });
                        pairs.push(PairCase { pattern: p.name.clone(), psks: ps.clone(), dh: (*dh).into(), extra_keys: false, omit: Some((side, *q)), peer_zero: true, late_set: true, refused_set: 0 });
                    }
                }
            }
        }
    }
    pairs.par_iter().for_each(|c| {
        ctx.add(&ctx.evaluations, 1);
        if let Err((sig, d)) = run_pair(c) {
            ctx.violation(sig, d, json!({"kind": "pair", "case": c}));
        }
    });
    ctx.count("pair_sessions", pairs.len() as u64);
    let ev = ctx.evaluations.load(std::sync::atomic::Ordering::Relaxed);
    ctx.states.store(ev, std::sync::atomic::Ordering::Relaxed);
    ctx.transitions.store(ev, std::sync::atomic::Ordering::Relaxed);
    ctx.traces.store(ev, std::sync::atomic::Ordering::Relaxed);
    ctx.nontrivial.store(ok.load(std::sync::atomic::Ordering::Relaxed).min(rejected.load(std::sync::atomic::Ordering::Relaxed)) * 2, std::sync::atomic::Ordering::Relaxed);
    ctx.sample(json!(cases[1234]));
    ctx.sample(json!(pairs[777]));
    ctx.assume("extra keys (a static or remote key the pattern does not need) must be accepted: the oracle is `required is a subset of supplied`");
    ctx.assume("with several causes any of the matching errors is accepted; keys have the length the DH function uses");
    *ctx.exhaustive.lock().unwrap() = Some(true);
    ctx.finish()
}

pub fn replay(case: &serde_json::Value) -> Result<(), String> {
    let r = match case["kind"].as_str() {
        Some("build") => judge_build(&serde_json::from_value(case["case"].clone()).map_err(|e| e.to_string())?).map(|_| ()),
        Some("pair") => run_pair(&serde_json::from_value(case["case"].clone()).map_err(|e| e.to_string())?),
        Some("ring-only") | Some("builtin") => {
            let ctx = Ctx::new("C12", Tier::Quick, "model_checking");
            ring_only_builds(&ctx);
            super::c20::builtin_table(&ctx);
            return match ctx.violations.lock().unwrap().first() {
                Some(v) => Err(format!("{}: {}", v.signature, v.detail)),
                None => Ok(()),
            };
        },
        _ => return Err("bad case".into()),
    };
    r.map_err(|(s, d)| format!("{s}: {d}"))
}
