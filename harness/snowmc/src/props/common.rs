//! Shared pieces of the property checks.

use crate::{
    ctx::Ctx,
    engine::seqmc::{SeqResult, SeqSpec},
    exec::{Cat, Config, Exec, Op, WireMeta},
    seam::Backend,
    sess,
};
use refnoise::{patterns, CipherAlg, DhAlg, HashAlg, Proto};
use serde_json::json;

pub fn proto(pattern: &str, psks: &[u8], dh: DhAlg, c: CipherAlg, h: HashAlg) -> Proto {
    let b = patterns::base_patterns().into_iter().find(|p| p.name == pattern).unwrap_or_else(|| panic!("pattern {pattern}"));
    Proto::new(&b, psks, dh, c, h).unwrap()
}

/// (cipher, backend) pairs that exist: ring has no XChaChaPoly.
pub fn cipher_backends() -> Vec<(CipherAlg, Backend)> {
    vec![
        (CipherAlg::ChaChaPoly, Backend::Default),
        (CipherAlg::AesGcm, Backend::Default),
        (CipherAlg::XChaChaPoly, Backend::Default),
        (CipherAlg::ChaChaPoly, Backend::Ring),
        (CipherAlg::AesGcm, Backend::Ring),
    ]
}

/// indices (into `e.wires[side]`) of the transport messages written by `side`
pub fn transport_wires(e: &Exec, side: crate::exec::Side) -> Vec<usize> {
    e.wires[side.idx()].iter().enumerate().filter(|(_, w)| matches!(w.meta, WireMeta::T { .. })).map(|(k, _)| k).collect()
}

/// Standard judge: every mismatch of the given categories is a verdict.
pub fn judge_cats(cats: &'static [Cat]) -> crate::engine::seqmc::Judge {
    std::sync::Arc::new(move |e: &Exec| sess::filter(e, cats).into_iter().map(|m| (sess::signature(e, m), format!("{}: {}", e.cfg.name, m.detail))).collect())
}

/// Fold the result of one E2 exploration into the run context; violations carry a replayable case.
pub fn absorb(ctx: &Ctx, spec: &SeqSpec, r: &SeqResult, label: &str) {
    ctx.add(&ctx.states, r.states);
    ctx.add(&ctx.transitions, r.transitions);
    ctx.add(&ctx.traces, r.transitions);
    ctx.add(&ctx.evaluations, r.transitions);
    ctx.add(&ctx.nontrivial, r.states);
    ctx.count("explorations", 1);
    ctx.count("states_generated_before_merging", r.generated);
    let mut md = ctx.counters.lock().unwrap();
    let e = md.entry("max_depth_reached".into()).or_insert(0);
    *e = (*e).max(r.max_depth as u64);
    drop(md);
    if !r.goal_reached {
        ctx.count("explorations_without_goal", 1);
        ctx.vacuous(format!("{label}: goal state not reached"));
    }
    {
        let mut ex = ctx.extra.lock().unwrap();
        let o = ex.entry("distinct_outcomes".to_string()).or_insert_with(|| json!([]));
        let arr = o.as_array_mut().unwrap();
        for x in &r.outcomes {
            let v = json!(x);
            if !arr.contains(&v) {
                arr.push(v);
            }
        }
    }
    for (sig, detail, hist) in &r.verdicts {
        let mut ops = spec.prefix.clone();
        ops.extend(hist.iter().cloned());
        ctx.violation(sig.clone(), format!("{label}: {detail}"), sess::case_json(&spec.cfg, &ops));
    }
}

/// Replay of an executor case judged on categories.
pub fn replay_cats(case: &serde_json::Value, cats: &[Cat]) -> Result<(), String> {
    let (cfg, ops) = sess::case_from_json(case).ok_or("bad case")?;
    let e = sess::run(&cfg, &ops);
    if let Some(b) = &e.build_err {
        return Err(b.clone());
    }
    match sess::filter(&e, cats).first() {
        Some(m) => Err(format!("{}: {}\n{}", cfg.name, m.detail, sess::describe_steps(&e).join("\n"))),
        None => Ok(()),
    }
}

pub fn sample_ops(ctx: &Ctx, cfg: &Config, ops: &[Op]) {
    ctx.sample(sess::case_json(cfg, ops));
}
