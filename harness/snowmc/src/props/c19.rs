//! C19 A rejected message never leaks decrypted plaintext to the caller (E1).
//! The plaintext is a recognisable pattern; after an Err the canary-filled output buffer must not
//! contain any 8-byte window (4 for short plaintexts) of the rejected message's plaintext.

use super::common::*;
use crate::{
    ctx::{Ctx, Tier},
    exec::{Alter, Cap, Config, Exec, Msg, Op, Side, WireMeta},
    seam::Backend,
    sess::{self, Mode},
};
use rayon::prelude::*;
use refnoise::{CipherAlg, DhAlg, HashAlg};
use serde::{Deserialize, Serialize};
use serde_json::json;
use snow::{
    params::CipherChoice,
    resolvers::{CryptoResolver, DefaultResolver, RingResolver},
};

/// does `buf` contain a window of `pt` (window = min(8, pt.len()), at least 4 bytes)?
pub fn leaks(buf: &[u8], pt: &[u8]) -> Option<usize> {
    if pt.len() < 4 {
        return None;
    }
    let w = pt.len().min(8);
    if buf.len() < w {
        return None;
    }
    let have: std::collections::HashSet<&[u8]> = buf.windows(w).collect();
    for off in 0..=pt.len() - w {
        if have.contains(&pt[off..off + w]) {
            return Some(off);
        }
    }
    None
}

#[derive(Clone, Copy, PartialEq, Eq, Debug, Serialize, Deserialize)]
pub enum Path {
    HandshakePayload,
    Stateful,
    Stateless,
}

fn ops_for(path: Path, plen: usize, alt: &Alter, wrong_nonce: bool, cap: usize) -> (Vec<Op>, usize) {
    let p_nn = 2; // messages of NN
    let _ = p_nn;
    match path {
        Path::HandshakePayload => {
            // NN message 2 carries an encrypted payload
            let ops = vec![
                Op::HsWrite { side: Side::I, plen: 0, cap: Cap::Roomy },
                Op::HsRead { side: Side::R, msg: Msg::Last(Side::I), cap: Cap::Roomy },
                Op::HsWrite { side: Side::R, plen, cap: Cap::Roomy },
                Op::HsRead { side: Side::I, msg: Msg::Altered(Box::new(Msg::Last(Side::R)), alt.clone()), cap: Cap::Exact(cap) },
            ];
            (ops, 3)
        },
        Path::Stateful | Path::Stateless => {
            let mode = if path == Path::Stateful { Mode::TT } else { Mode::SS };
            let mut ops = vec![
                Op::HsWrite { side: Side::I, plen: 0, cap: Cap::Roomy },
                Op::HsRead { side: Side::R, msg: Msg::Last(Side::I), cap: Cap::Roomy },
                Op::HsWrite { side: Side::R, plen: 0, cap: Cap::Roomy },
                Op::HsRead { side: Side::I, msg: Msg::Last(Side::R), cap: Cap::Roomy },
            ];
            ops.extend(sess::convert_ops(mode));
            let m = if wrong_nonce { Msg::Last(Side::I) } else { Msg::Altered(Box::new(Msg::Last(Side::I)), alt.clone()) };
            if path == Path::Stateful {
                ops.push(Op::TWrite { side: Side::I, plen, cap: Cap::Roomy });
                if wrong_nonce {
                    ops.push(Op::SetRecvNonce { side: Side::R, n: 7 });
                }
                ops.push(Op::TRead { side: Side::R, msg: m, cap: Cap::Exact(cap) });
            } else {
                ops.push(Op::SWrite { side: Side::I, nonce: 3, plen, cap: Cap::Roomy });
                ops.push(Op::SRead { side: Side::R, nonce: if wrong_nonce { 4 } else { 3 }, msg: m, cap: Cap::Exact(cap) });
            }
            let last = ops.len() - 1;
            (ops, last)
        },
    }
}

pub fn check_exec(cfg: &Config, ops: &[Op], probe: usize) -> (Option<(String, String)>, bool) {
    let mut e = Exec::new(cfg);
    e.keep_err_buf = true;
    for op in ops {
        e.step(op);
    }
    let Some(st) = e.steps.get(probe) else { return (None, false) };
    if st.real.is_ok() {
        return (None, false); // not rejected: nothing to say (acceptance is C03/C04's business)
    }
    // the plaintext of the rejected message = payload of the writer's last wire
    let writer = match &st.op {
        Op::HsRead { side, .. } | Op::TRead { side, .. } | Op::SRead { side, .. } => side.peer(),
        _ => return (None, false),
    };
    let Some(w) = e.wires[writer.idx()].last() else { return (None, false) };
    if let Some(buf) = &st.err_buf {
        // the other decrypted field of a handshake message: the sender's static public key
        if let (Op::HsRead { .. }, WireMeta::Hs { pos, .. }) = (&st.op, &w.meta) {
            let has_enc_s = refnoise::state::field_map(&e.proto, *pos, 0).iter().any(|f| f.kind == refnoise::state::FieldKind::S && f.encrypted);
            if let (true, Some(sk)) = (has_enc_s, &cfg.s_priv[writer.idx()]) {
                if let Some(pk) = e.proto.dh.pubkey(sk) {
                    if let Some(off) = leaks(buf, &pk) {
                        return (Some(("the output buffer of a rejected HsRead contains the decrypted static key of the rejected message".to_string(), format!("{} {:?}: key window at offset {off}, buffer {} bytes, payload {} bytes", cfg.name, cfg.backend[0], buf.len(), w.payload.len()))), true);
                    }
                }
            }
        }
        if let Some(off) = leaks(buf, &w.payload) {
            return (Some((format!("the output buffer of a rejected {} contains plaintext of the rejected message", sess::op_kind(&st.op).split('(').next().unwrap_or("read")), format!("{} {:?}: plaintext window at offset {off}, buffer {} bytes, payload {} bytes", cfg.name, cfg.backend[0], buf.len(), w.payload.len()))), true);
        }
    }
    (None, true)
}

fn cipher_choice(c: CipherAlg) -> CipherChoice {
    match c {
        CipherAlg::ChaChaPoly => CipherChoice::ChaChaPoly,
        CipherAlg::AesGcm => CipherChoice::AESGCM,
        CipherAlg::XChaChaPoly => CipherChoice::XChaChaPoly,
    }
}

/// Cipher::decrypt called directly on the resolver object
fn direct(ctx: &Ctx, c: CipherAlg, ring: bool) {
    let res: Box<dyn CryptoResolver> = if ring { Box::new(RingResolver) } else { Box::new(DefaultResolver) };
    let Some(mut obj) = res.resolve_cipher(&cipher_choice(c)) else { return };
    let key = [0x5au8; 32];
    obj.set(&key);
    for plen in [4usize, 16, 17, 64, 1000] {
        let pt = crate::exec::payload_bytes(plen, 0x11);
        let ad = b"associated";
        let ct = c.encrypt(&key, 9, ad, &pt);
        let mut alts: Vec<(Vec<u8>, u64, Vec<u8>, &'static str)> = vec![];
        for bit in (0..128).map(|b| (ct.len() - 16) * 8 + b).chain((0..plen.min(64) * 8).step_by(if plen > 17 { 5 } else { 1 })) {
            let mut x = ct.clone();
            x[bit / 8] ^= 1 << (bit % 8);
            alts.push((x, 9, ad.to_vec(), "altered ciphertext"));
        }
        alts.push((ct.clone(), 10, ad.to_vec(), "wrong nonce"));
        alts.push((ct.clone(), 9, b"associateD".to_vec(), "wrong associated data"));
        for (x, n, a, what) in alts {
            for cap in [plen, ct.len() - 1, ct.len(), ct.len() + 1, 2 * ct.len()] {
                let mut out = vec![0xC9u8; cap];
                let r = obj.decrypt(n, &a, &x, &mut out);
                ctx.add(&ctx.evaluations, 1);
                if r.is_err() {
                    ctx.add(&ctx.nontrivial, 1);
                    if let Some(off) = leaks(&out, &pt) {
                        ctx.violation(
                            "Cipher::decrypt left plaintext of a rejected ciphertext in the output buffer",
                            format!("{} {} ({what}): window at {off}, out.len() {cap}, plaintext {plen}", if ring { "ring" } else { "default" }, c.name()),
                            json!({"kind": "direct", "cipher": c.name(), "ring": ring}),
                        );
                    }
                }
            }
        }
    }
}


/// Rejections that are not caused by altered bytes. (1) A message that IS valid under the reserved nonce 2^64-1
/// (crafted with the reference AEAD and the session key a non-conforming peer would hold): the read must be refused
/// (C09) and, refused, must not have put the plaintext into the caller's buffer. (2) A genuine handshake message
/// whose (encrypted) static key differs from one the reader's builder was given although the pattern transmits
/// it: snow accepts such a message; an implementation that rejects it must not leave the payload behind either.
fn other_rejections(ctx: &Ctx) {
    use crate::exec::payload_bytes;
    let mut jobs = vec![];
    for (c, b) in cipher_backends() {
        for stateless in [true, false] {
            for plen in [8usize, 40, 300] {
                for slack in [0usize, 5, 16, 200] {
                    jobs.push((c, b, stateless, plen, slack));
                }
            }
        }
    }
    jobs.par_iter().for_each(|(c, b, stateless, plen, slack)| {
        let p = proto("NN", &[], DhAlg::X25519, *c, HashAlg::Sha256);
        let mut cfg = Config::honest(&p, 0);
        cfg.backend = [*b, *b];
        cfg.crypto_oracle = false;
        cfg.record = true;
        let mut e = Exec::new(&cfg);
        e.keep_err_buf = true;
        let mut ops = sess::handshake_ops(&p, &[0, 0, 0, 0]);
        ops.extend(sess::convert_ops(if *stateless { Mode::SS } else { Mode::TT }));
        for op in &ops {
            e.step(op);
        }
        // the responder's receiving key (cipher object 1 = initiator -> responder)
        let Some(key) = e.logs[Side::R.idx()].current_key(1) else { return };
        let pt = payload_bytes(*plen, 0x3c);
        let ct = c.encrypt(&key, u64::MAX, &[], &pt);
        let read = if *stateless {
            Op::SRead { side: Side::R, nonce: u64::MAX, msg: Msg::Raw(ct), cap: Cap::Exact(plen + slack) }
        } else {
            e.step(&Op::SetRecvNonce { side: Side::R, n: u64::MAX });
            ops.push(Op::SetRecvNonce { side: Side::R, n: u64::MAX });
            Op::TRead { side: Side::R, msg: Msg::Raw(ct), cap: Cap::Exact(plen + slack) }
        };
        e.step(&read);
        ops.push(read);
        ctx.add(&ctx.evaluations, 1);
        ctx.add(&ctx.transitions, ops.len() as u64);
        ctx.add(&ctx.traces, 1);
        let st = e.steps.last().unwrap();
        if st.real.is_ok() {
            return; // accepting it is C09's violation, not this property's
        }
        ctx.add(&ctx.nontrivial, 1);
        ctx.count("reserved-nonce message rejected", 1);
        if let Some(buf) = &st.err_buf {
            if let Some(off) = leaks(buf, &pt) {
                ctx.violation("the output buffer of a read refused for the reserved nonce contains the plaintext of the refused message", format!("{} {:?} {}: plaintext window at offset {off}, buffer {} bytes", cfg.name, b, if *stateless { "stateless" } else { "stateful" }, buf.len()), json!({"kind": "reserved", "cipher": c.name(), "backend": b}));
            }
        }
    });
    ctx.count("reserved_nonce_cases", jobs.len() as u64);
    // (2)
    let mut pj = vec![];
    for (c, b) in cipher_backends() {
        for dh in [DhAlg::X25519, DhAlg::P256] {
            for (pat, k) in [("XX", 1usize), ("XX", 2), ("IK", 0), ("XK", 2), ("KX", 1), ("X", 0), ("IX", 1), ("XN", 2)] {
                for cap in [Cap::Roomy, Cap::NeedPlus(0)] {
                    pj.push((c, b, dh, pat, k, cap));
                }
            }
        }
    }
    pj.par_iter().for_each(|(c, b, dh, pat, k, cap)| {
        let p = proto(pat, &[], *dh, *c, HashAlg::Blake2s);
        let w = sess::writer(*k);
        let r = w.peer();
        let mut cfg = Config::honest(&p, 0);
        cfg.backend = [*b, *b];
        cfg.crypto_oracle = false;
        if cfg.rs_pub[r.idx()].is_some() {
            return; // the pattern pre-shares it: a different key is simply a wrong configuration (C08)
        }
        cfg.rs_pub[r.idx()] = dh.pubkey(&crate::exec::key_bytes(9));
        let mut ops = sess::handshake_ops(&p, &[20, 20, 20, 20]);
        ops.truncate(2 * k + 2);
        let probe = 2 * k + 1;
        ops[probe] = Op::HsRead { side: r, msg: Msg::Last(w), cap: cap.clone() };
        let (v, rejected) = check_exec(&cfg, &ops, probe);
        ctx.add(&ctx.evaluations, 1);
        ctx.add(&ctx.transitions, ops.len() as u64);
        ctx.add(&ctx.traces, 1);
        if rejected {
            ctx.count("message with a static key other than the supplied one rejected", 1);
        }
        if let Some((sig, d)) = v {
            ctx.violation(format!("{sig} (genuine message, the reader was given another static key)"), d, json!({"kind": "exec", "config": cfg, "ops": ops, "probe": probe}));
        }
    });
    ctx.count("supplied_other_static_cases", pj.len() as u64);
}


/// A non-conforming peer (the reference model with its static PUBLIC key replaced by bytes that are not a point of
/// the curve) sends a genuine, correctly encrypted handshake message whose `s` field carries that key, in deferred
/// patterns where no DH touches `s` in the same message. snow accepts the message (the bad key only fails a later
/// DH); an implementation that validates the key and rejects must not have left the payload in the caller's buffer.
fn invalid_static_from_peer(ctx: &Ctx) {
    use crate::exec::{build_real, key_bytes, payload_bytes};
    use refnoise::state::HandshakeState as RefHs;
    let mut jobs = vec![];
    for (c, b) in cipher_backends() {
        // (pattern, index of the message that carries the deferred static key, its writer is the initiator?)
        for (pat, k) in [("X1N", 2usize), ("X1K", 2), ("X1X", 2), ("NX1", 1), ("XX1", 1), ("KX1", 1), ("I1K", 0), ("I1N", 0)] {
            for cap_extra in [0usize, 7, 16, 300] {
                jobs.push((c, b, pat, k, cap_extra));
            }
        }
    }
    jobs.par_iter().for_each(|(c, b, pat, k, cap_extra)| {
        let dh = DhAlg::P256;
        let p = proto(pat, &[], dh, *c, HashAlg::Sha256);
        let mut cfg = Config::honest(&p, 0);
        cfg.backend = [*b, *b];
        let writer_is_init = k % 2 == 0;
        let (ws, rs_) = if writer_is_init { (Side::I, Side::R) } else { (Side::R, Side::I) };
        // the reference plays the writer of message k, real snow the reader
        let Ok(mut refp) = RefHs::new(&p, writer_is_init, &cfg.prologue[ws.idx()], cfg.s_priv[ws.idx()].as_deref(), cfg.rs_pub[ws.idx()].as_deref(), &cfg.psks[ws.idx()]) else { return };
        let Ok(mut real) = build_real(&cfg, rs_, &crate::seam::Log::new()) else { return };
        let eph = key_bytes(if writer_is_init { 3 } else { 4 });
        let plen = 24;
        let pt = payload_bytes(plen, 0x5b);
        let mut buf = vec![0u8; 4096];
        let mut out = vec![0u8; 4096];
        for j in 0..=*k {
            let ref_writes = (j % 2 == 0) == writer_is_init;
            if ref_writes {
                if j == *k {
                    // an encoding that is not on the curve: x = 5, y = 1
                    if let Some(sk) = &mut refp.s {
                        let mut bad = vec![0u8; 65];
                        bad[0] = 4;
                        bad[32] = 5;
                        bad[64] = 1;
                        sk.1 = bad;
                    }
                }
                let Ok(w) = refp.write_message(if j == *k { &pt } else { b"" }, Some(&eph)) else { return };
                if j == *k {
                    let cap = plen + cap_extra;
                    let mut o = vec![0xC9u8; cap];
                    let r = real.read_message(&w.msg, &mut o);
                    ctx.add(&ctx.evaluations, 1);
                    ctx.add(&ctx.traces, 1);
                    if r.is_err() {
                        ctx.add(&ctx.nontrivial, 1);
                        ctx.count("message with an invalid static key rejected", 1);
                        if let Some(off) = leaks(&o, &pt) {
                            ctx.violation("the output buffer of a handshake read that rejects the peer's static key contains the payload of the rejected message", format!("{} {:?}: plaintext window at offset {off}, buffer {cap} bytes", p.name, b), json!({"kind": "invalid-static"}));
                        }
                    } else {
                        ctx.count("message with an invalid static key accepted (no validation at this point)", 1);
                    }
                    return;
                }
                if real.read_message(&w.msg, &mut out).is_err() {
                    return;
                }
            } else {
                let Ok(n) = real.write_message(b"", &mut buf) else { return };
                if refp.read_message(&buf[..n]).is_err() {
                    return;
                }
            }
        }
    });
    ctx.count("invalid_static_cases", jobs.len() as u64);
}


/// Late genuine packets: a stateless sender's messages under nonces H and H - age; the stateful receiver reads H,
/// is pointed back to H - age and reads that one. snow accepts it (no replay window); an implementation that
/// refuses it for its age must not have left the plaintext behind.
fn late_packets(ctx: &Ctx) {
    use crate::exec::payload_bytes;
    let mut jobs = vec![];
    for (c, b) in cipher_backends() {
        for age in [1u64, 2, 31, 32, 33, 63, 64, 65, 127, 128, 129, 1000, 65536] {
            jobs.push((c, b, age));
        }
    }
    jobs.par_iter().for_each(|(c, b, age)| {
        let p = proto("NN", &[], DhAlg::X25519, *c, HashAlg::Sha256);
        let mut cfg = Config::honest(&p, 0);
        cfg.backend = [*b, *b];
        cfg.crypto_oracle = false;
        let h = 70_000u64;
        let mut ops = sess::handshake_ops(&p, &[0, 0, 0, 0]);
        ops.extend(sess::convert_ops(Mode::ST));
        ops.push(Op::SWrite { side: Side::I, nonce: h, plen: 20, cap: Cap::Roomy });
        ops.push(Op::SetRecvNonce { side: Side::R, n: h });
        ops.push(Op::TRead { side: Side::R, msg: Msg::Last(Side::I), cap: Cap::Roomy });
        ops.push(Op::SWrite { side: Side::I, nonce: h - age, plen: 24, cap: Cap::Roomy });
        ops.push(Op::SetRecvNonce { side: Side::R, n: h - age });
        ops.push(Op::TRead { side: Side::R, msg: Msg::Last(Side::I), cap: Cap::Exact(24 + (*age as usize % 17)) });
        let probe = ops.len() - 1;
        let mut e = Exec::new(&cfg);
        e.keep_err_buf = true;
        for op in &ops {
            e.step(op);
        }
        ctx.add(&ctx.evaluations, 1);
        ctx.add(&ctx.transitions, ops.len() as u64);
        ctx.add(&ctx.traces, 1);
        let st = &e.steps[probe];
        if st.real.is_ok() {
            ctx.count("late genuine packet accepted", 1);
            return;
        }
        ctx.add(&ctx.nontrivial, 1);
        ctx.count("late genuine packet rejected", 1);
        let pt = payload_bytes(24, 0x80 ^ ((h - age) as u8));
        if let Some(buf) = &st.err_buf {
            if let Some(off) = leaks(buf, &pt) {
                ctx.violation("the output buffer of a rejected TRead contains plaintext of the rejected message (a genuine packet that arrived late)", format!("{} {:?}: age {age}, plaintext window at offset {off}", cfg.name, b), json!({"kind": "exec", "config": cfg, "ops": ops, "probe": probe}));
            }
        }
    });
    ctx.count("late_packet_cases", jobs.len() as u64);
}

pub fn run(tier: Tier) -> i32 {
    let ctx = Ctx::new("C19", tier, "fault_enumeration");
    // the whole thorough alphabet costs a few seconds: both tiers run it
    let quick = false;
    // thorough: more plaintext lengths, every body bit of the first 64 bytes, every pattern for the encrypted-s part
    // (the deeper alphabet costs well under a minute: the quick tier runs it too)
    let thorough = true;
    ctx.set_rule("case = (cipher x backend, read path in {handshake payload, stateful transport, stateless transport, Cipher::decrypt directly}, plaintext length in {4,16,17,64,1000}, alteration: every bit of the tag, every bit (stride 5 above 17 bytes) of the first 64 body bytes, wrong nonce, wrong ad, output buffer length in {pt, ct-1, ct, ct+1, 2*ct}); handshake messages with an encrypted static key before the payload (XX, IK, IX, XK, KX, X x 25519/P256 x payload {0,4,20,100}) altered in the payload body/tag only x 12 buffer sizes, where neither the payload nor the decrypted static key may appear; messages valid under the reserved nonce 2^64-1 (crafted with the reference AEAD), and genuine handshake messages read by a party that was given another static key; oracle: after Err the canary-filled output buffer contains no 8-byte (4 for short plaintexts) window of the rejected message's plaintext. non-trivial = the read was rejected");
    let mut cases: Vec<(CipherAlg, Backend, Path, usize, Alter, bool, usize)> = vec![];
    for (c, b) in cipher_backends() {
        for path in [Path::HandshakePayload, Path::Stateful, Path::Stateless] {
            for plen in if thorough { vec![4usize, 5, 15, 16, 17, 31, 32, 33, 64, 255, 1000, 4096] } else { vec![4usize, 16, 17, 64, 1000] } {
                let ct = plen + 16;
                // alteration positions are relative to the whole message: for the handshake payload the
                // message is e (32) || payload ct
                let base = if path == Path::HandshakePayload { 32 } else { 0 };
                let mut alts: Vec<(Alter, bool)> = vec![];
                let tag_bits: Vec<usize> = if quick { (0..128).step_by(3).collect() } else { (0..128).collect() };
                for tb in tag_bits {
                    alts.push((Alter::FlipBit((base + plen) * 8 + tb), false));
                }
                let body_step = if thorough { 1 } else if plen > 17 { if quick { 13 } else { 5 } } else { 1 };
                for bb in (0..plen.min(64) * 8).step_by(body_step) {
                    alts.push((Alter::FlipBit(base * 8 + bb), false));
                }
                if path != Path::HandshakePayload {
                    alts.push((Alter::FlipLast, true)); // wrong nonce variant (alteration ignored)
                }
                for (a, wn) in alts {
                    for cap in [plen, ct - 1, ct, ct + 1, 2 * ct] {
                        cases.push((c, b, path, plen, a.clone(), wn, cap));
                    }
                }
            }
        }
    }
    cases.par_iter().for_each(|(c, b, path, plen, alt, wn, cap)| {
        let p = proto("NN", &[], DhAlg::X25519, *c, HashAlg::Sha256);
        let mut cfg = Config::honest(&p, 0);
        cfg.backend = [*b, *b];
        cfg.crypto_oracle = false;
        let (ops, probe) = ops_for(*path, *plen, alt, *wn, *cap);
        let (v, rejected) = check_exec(&cfg, &ops, probe);
        ctx.add(&ctx.evaluations, 1);
        ctx.add(&ctx.transitions, ops.len() as u64);
        ctx.add(&ctx.traces, 1);
        if rejected {
            ctx.add(&ctx.nontrivial, 1);
            ctx.count(&format!("{path:?} rejected"), 1);
        }
        if let Some((sig, d)) = v {
            ctx.violation(sig, d, json!({"kind": "exec", "config": cfg, "ops": ops, "probe": probe}));
        }
    });
    // handshake messages that carry an encrypted static key before the payload (XX 2nd/3rd, IK 1st/2nd... message):
    // the alteration is confined to the payload's body or tag, so the key field decrypts and the message is
    // rejected afterwards; neither the key nor the payload plaintext may be in the caller's buffer
    let mut scases: Vec<(CipherAlg, Backend, DhAlg, String, usize, usize, Alter, usize)> = vec![];
    for (c, b) in cipher_backends() {
        for dh in [DhAlg::X25519, DhAlg::P256] {
            // thorough: every (pattern, message) whose message carries an encrypted static key
            let mut pairs: Vec<(String, usize)> = [("XX", 1usize), ("XX", 2), ("IK", 0), ("IX", 1), ("XK", 2), ("KX", 1), ("X", 0)].iter().map(|(a, b)| (a.to_string(), *b)).collect();
            if thorough {
                for bp in refnoise::patterns::base_patterns() {
                    let p = proto(&bp.name, &[], dh, c, HashAlg::Blake2s);
                    for k in 0..p.n_msgs() {
                        if refnoise::state::field_map(&p, k, 0).iter().any(|f| f.kind == refnoise::state::FieldKind::S && f.encrypted) && !pairs.contains(&(bp.name.clone(), k)) {
                            pairs.push((bp.name.clone(), k));
                        }
                    }
                }
            }
            for (pat, k) in pairs {
                for plen in [0usize, 4, 20, 100] {
                    let p = proto(&pat, &[], dh, c, HashAlg::Blake2s);
                    let fm = refnoise::state::field_map(&p, k, plen);
                    let Some(pf) = fm.iter().find(|f| f.kind == refnoise::state::FieldKind::Payload) else { continue };
                    let total = pf.start + pf.len;
                    let mut alts = vec![Alter::FlipLast, Alter::FlipBit((total - 16) * 8 + 3), Alter::FlipBit((total - 1) * 8 + 7)];
                    if plen > 0 {
                        alts.push(Alter::FlipBit(pf.start * 8));
                        alts.push(Alter::FlipBit((pf.start + plen - 1) * 8 + 5));
                    }
                    let publen = dh.publen();
                    for a in alts {
                        for cap in [0usize, plen, plen + 15, plen + 16, publen, publen + 15, publen + 16, publen + 17, 100, 200, total, 2 * total] {
                            scases.push((c, b, dh, pat.clone(), k, plen, a.clone(), cap));
                        }
                    }
                }
            }
        }
    }
    scases.par_iter().for_each(|(c, b, dh, pat, k, plen, alt, cap)| {
        let p = proto(pat, &[], *dh, *c, HashAlg::Blake2s);
        let mut cfg = Config::honest(&p, 0);
        cfg.backend = [*b, *b];
        cfg.crypto_oracle = false;
        let mut ops = sess::handshake_ops(&p, &[*plen, *plen, *plen, *plen]);
        ops.truncate(2 * k + 2);
        let w = sess::writer(*k);
        let probe = 2 * k + 1;
        ops[probe] = Op::HsRead { side: w.peer(), msg: Msg::Altered(Box::new(Msg::Last(w)), alt.clone()), cap: Cap::Exact(*cap) };
        let (v, rejected) = check_exec(&cfg, &ops, probe);
        ctx.add(&ctx.evaluations, 1);
        ctx.add(&ctx.transitions, ops.len() as u64);
        ctx.add(&ctx.traces, 1);
        if rejected {
            ctx.add(&ctx.nontrivial, 1);
            ctx.count("handshake message with encrypted s rejected", 1);
        }
        if let Some((sig, d)) = v {
            ctx.violation(sig, d, json!({"kind": "exec", "config": cfg, "ops": ops, "probe": probe}));
        }
    });
    ctx.count("encrypted_static_cases", scases.len() as u64);
    other_rejections(&ctx);
    invalid_static_from_peer(&ctx);
    late_packets(&ctx);
    for (c, b) in cipher_backends() {
        direct(&ctx, c, b == Backend::Ring);
    }
    ctx.states.store(cases.len() as u64, std::sync::atomic::Ordering::Relaxed);
    let (c0, b0, p0, l0, a0, w0, cap0) = &cases[1000];
    ctx.sample(json!({"cipher": c0.name(), "backend": b0, "path": p0, "plen": l0, "alteration": a0, "wrong_nonce": w0, "out_cap": cap0}));
    ctx.assume("ciphertext or zeros left in the buffer are fine; only plaintext windows are judged; plaintexts shorter than 4 bytes are not judged (chance matches)");
    *ctx.exhaustive.lock().unwrap() = Some(false);
    ctx.finish()
}

pub fn replay(case: &serde_json::Value) -> Result<(), String> {
    if case["kind"] == "invalid-static" {
        let ctx = Ctx::new("C19", Tier::Quick, "fault_enumeration");
        invalid_static_from_peer(&ctx);
        return match ctx.violations.lock().unwrap().first() {
            Some(v) => Err(format!("{}: {}", v.signature, v.detail)),
            None => Ok(()),
        };
    }
    if case["kind"] == "reserved" {
        let ctx = Ctx::new("C19", Tier::Quick, "fault_enumeration");
        other_rejections(&ctx);
        return match ctx.violations.lock().unwrap().first() {
            Some(v) => Err(format!("{}: {}", v.signature, v.detail)),
            None => Ok(()),
        };
    }
    if case["kind"] == "direct" {
        let ctx = Ctx::new("C19", Tier::Quick, "fault_enumeration");
        let c = CipherAlg::from_name(case["cipher"].as_str().unwrap_or("")).ok_or("bad case")?;
        direct(&ctx, c, case["ring"].as_bool().unwrap_or(false));
        return match ctx.violations.lock().unwrap().first() {
            Some(v) => Err(format!("{}: {}", v.signature, v.detail)),
            None => Ok(()),
        };
    }
    let (cfg, ops) = sess::case_from_json(case).ok_or("bad case")?;
    let probe = case["probe"].as_u64().unwrap_or(0) as usize;
    match check_exec(&cfg, &ops, probe).0 {
        Some((s, d)) => Err(format!("{s}: {d}")),
        None => Ok(()),
    }
}
