//! C11, second engine: the TLA+ model `/verif/tla/HsTurn.tla` (turn / phase / one-way machine of one
//! session, crypto-free) is checked by TLC (all reachable states, its own invariants), TLC dumps the
//! complete labelled state graph, and EVERY edge of that graph is replayed against real snow objects:
//! the shortest model path to the edge's source state, then the edge's call, comparing what the caller
//! observes (ok / documented state error / other error) and the turn / finished indicators with the
//! model's target state.  A refused call changes nothing in the model but `last`, so the edges leaving
//! the state after a refusal check behaviourally that the refusal had no effect on the implementation.
//!
//! The runner below drives HandshakeState / TransportState / StatelessTransportState directly; it does
//! not use the executor's Rust model, so the two C11 engines are independent of each other.

use crate::{
    ctx::{machinery, Ctx, VERIF_DIR},
    exec::{build_real, Config, Side},
    seam::Log,
};
use rayon::prelude::*;
use refnoise::Proto;
use serde_json::{json, Value};
use snow::{HandshakeState, StatelessTransportState, TransportState};
use std::{
    collections::{HashMap, VecDeque},
    panic::{catch_unwind, AssertUnwindSafe},
    process::Command,
};

#[derive(Clone, Debug, PartialEq, Eq)]
pub struct Act {
    pub call: String,
    /// 0 = initiator, 1 = responder
    pub p: usize,
    pub arg: usize,
    /// "ok" | "state" | "rej"
    pub outcome: String,
}

#[derive(Clone, Debug)]
pub struct Node {
    pub n: usize,
    pub oneway: bool,
    pub sl: bool,
    pub pos: [usize; 2],
    pub mode: [String; 2],
    pub last: Act,
}

pub struct Graph {
    pub nodes: Vec<Node>,
    pub edges: Vec<(usize, usize)>,
    pub inits: Vec<usize>,
    pub tlc_distinct: u64,
    pub tlc_generated: u64,
    pub tlc_depth: u64,
}

fn between<'a>(s: &'a str, a: &str, b: &str) -> Option<&'a str> {
    let i = s.find(a)? + a.len();
    let j = s[i..].find(b)? + i;
    Some(&s[i..j])
}

fn pair_of<T>(label: &str, var: &str, f: impl Fn(&str) -> Option<T>) -> Option<[T; 2]> {
    // `var = [I |-> x, R |-> y]`
    let body = between(label, &format!("/\\ {var} = [I |-> "), "]")?;
    let (x, y) = body.split_once(", R |-> ")?;
    Some([f(x.trim())?, f(y.trim())?])
}

fn parse_node(label: &str) -> Option<Node> {
    let num = |s: &str| s.parse::<usize>().ok();
    let st = |s: &str| Some(s.trim_matches('"').to_string());
    let padded = format!("{label}\n");
    let flag = |var: &str| -> Option<bool> {
        let v = between(&padded, &format!("/\\ {var} = "), "\n")?;
        Some(v.trim() == "TRUE")
    };
    let last = between(label, "/\\ last = <<", ">>")?;
    let f: Vec<&str> = last.split(", ").collect();
    if f.len() != 4 {
        return None;
    }
    let p = match f[1].trim_matches('"') {
        "I" | "-" => 0,
        "R" => 1,
        _ => return None,
    };
    Some(Node {
        n: num(between(&padded, "/\\ n = ", "\n")?.trim())?,
        oneway: flag("oneway")?,
        sl: flag("sl")?,
        pos: pair_of(label, "pos", num)?,
        mode: pair_of(label, "mode", st)?,
        last: Act { call: f[0].trim_matches('"').to_string(), p, arg: num(f[2])?, outcome: f[3].trim_matches('"').to_string() },
    })
}

/// Run TLC on the model and read the dumped state graph back.
pub fn model_graph() -> Graph {
    let tla_dir = format!("{}/tla", *VERIF_DIR);
    let out_dir = format!("{}/harness/target/tla-{}", *VERIF_DIR, std::process::id());
    let _ = std::fs::remove_dir_all(&out_dir);
    std::fs::create_dir_all(&out_dir).unwrap_or_else(|e| machinery(&format!("{out_dir}: {e}")));
    let dot = format!("{out_dir}/HsTurn.dot");
    let o = Command::new("tlc")
        .current_dir(&tla_dir)
        // TLC leaves an empty tlc-<n> directory in java.io.tmpdir on every run: keep it inside out_dir
        .env("JAVA_TOOL_OPTIONS", format!("-Djava.io.tmpdir={out_dir}"))
        .args(["-metadir", &format!("{out_dir}/meta"), "-dump", "dot", &dot, "-workers", "4", "HsTurn.tla"])
        .output()
        .unwrap_or_else(|e| machinery(&format!("cannot run tlc: {e}")));
    let text = String::from_utf8_lossy(&o.stdout).to_string();
    if !text.contains("Model checking completed. No error has been found.") {
        // an invariant of the model itself failed or TLC broke: the model is wrong, not snow
        let _ = std::fs::remove_dir_all(&out_dir);
        machinery(&format!("TLC did not verify HsTurn.tla: {}", text.lines().rev().take(12).collect::<Vec<_>>().join(" | ")));
    }
    let stat = |after: &str| -> u64 {
        text.lines().rev().find(|l| l.contains(after)).and_then(|l| {
            let words: Vec<&str> = l.split_whitespace().collect();
            let k = after.split_whitespace().next().unwrap();
            words.iter().position(|w| *w == k).and_then(|i| words[..i].last().and_then(|x| x.parse().ok()))
        }).unwrap_or(0)
    };
    let tlc_generated = stat("states generated");
    let tlc_distinct = stat("distinct states found");
    let tlc_depth = text.lines().find(|l| l.contains("depth of the complete state graph")).and_then(|l| l.trim_end_matches('.').split_whitespace().last().and_then(|x| x.parse().ok())).unwrap_or(0);
    let raw = std::fs::read_to_string(&dot).unwrap_or_else(|e| machinery(&format!("{dot}: {e}")));
    let _ = std::fs::remove_dir_all(&out_dir);
    let mut ids: HashMap<String, usize> = HashMap::new();
    let mut nodes = vec![];
    let mut edges = vec![];
    for line in raw.lines() {
        let Some((head, rest)) = line.split_once(' ') else { continue };
        if !head.trim_start_matches('-').chars().all(|c| c.is_ascii_digit()) || head.is_empty() {
            continue;
        }
        if let Some(r) = rest.strip_prefix("-> ") {
            let to = r.split(|c: char| c == ' ' || c == ';' || c == '[').next().unwrap_or("");
            edges.push((head.to_string(), to.to_string()));
        } else if rest.starts_with("[label=\"") {
            // the label ends at the first `",tooltip=` / `",style` (an escaped quote inside the label is `\"`)
            let body = &rest["[label=\"".len()..];
            let end = [body.find("\",tooltip="), body.find("\",style")].into_iter().flatten().min().unwrap_or_else(|| machinery("dot: node label not terminated"));
            let lab = &body[..end];
            let lab = lab.replace("\\n", "\n").replace("\\\"", "\"").replace("\\\\", "\\");
            let node = parse_node(&lab).unwrap_or_else(|| machinery(&format!("dot: cannot parse state {lab:?}")));
            ids.insert(head.to_string(), nodes.len());
            nodes.push(node);
        }
    }
    let edges: Vec<(usize, usize)> = edges
        .iter()
        .map(|(a, b)| (*ids.get(a).unwrap_or_else(|| machinery("dot: edge from unknown state")), *ids.get(b).unwrap_or_else(|| machinery("dot: edge to unknown state"))))
        .collect();
    if nodes.len() as u64 != tlc_distinct {
        machinery(&format!("state graph has {} states, TLC reported {tlc_distinct}", nodes.len()));
    }
    let inits = (0..nodes.len()).filter(|i| nodes[*i].last.call == "init").collect();
    Graph { nodes, edges, inits, tlc_distinct, tlc_generated, tlc_depth }
}

/// For every edge reachable from `init`: the calls of the shortest path to its source followed by its own call.
pub fn edge_paths(g: &Graph, init: usize) -> Vec<Vec<Act>> {
    let mut out: HashMap<usize, Vec<usize>> = HashMap::new();
    for (a, b) in &g.edges {
        out.entry(*a).or_default().push(*b);
    }
    let mut parent: HashMap<usize, usize> = HashMap::new();
    let mut order = vec![init];
    let mut q = VecDeque::from([init]);
    let mut seen = std::collections::HashSet::from([init]);
    while let Some(a) = q.pop_front() {
        for b in out.get(&a).into_iter().flatten() {
            if seen.insert(*b) {
                parent.insert(*b, a);
                order.push(*b);
                q.push_back(*b);
            }
        }
    }
    let path_to = |mut x: usize| -> Vec<Act> {
        let mut v = vec![];
        while let Some(p) = parent.get(&x) {
            v.push(g.nodes[x].last.clone());
            x = *p;
        }
        v.reverse();
        v
    };
    let mut paths = vec![];
    for a in order {
        let pre = path_to(a);
        for b in out.get(&a).into_iter().flatten() {
            let mut p = pre.clone();
            p.push(g.nodes[*b].last.clone());
            paths.push(p);
        }
    }
    paths
}

enum End {
    Hs(Box<HandshakeState>),
    T(Box<TransportState>),
    S(Box<StatelessTransportState>),
    Gone,
}

struct Sess {
    ends: [End; 2],
    n: usize,
    done: [usize; 2],
    hs_msgs: Vec<Option<Vec<u8>>>,
    tmsgs: [Vec<Vec<u8>>; 2],
}

fn class(r: Result<usize, snow::Error>) -> &'static str {
    match r {
        Ok(_) => "ok",
        Err(snow::Error::State(_)) => "state",
        Err(_) => "rej",
    }
}

impl Sess {
    fn new(cfg: &Config, n: usize) -> Result<Sess, String> {
        let mk = |s: Side| build_real(cfg, s, &Log::new()).map_err(|e| format!("build {s:?}: {e:?}"));
        Ok(Sess { ends: [End::Hs(Box::new(mk(Side::I)?)), End::Hs(Box::new(mk(Side::R)?))], n, done: [0, 0], hs_msgs: vec![None; 4], tmsgs: [vec![], vec![]] })
    }
    fn step(&mut self, a: &Act, sl: bool) -> Result<&'static str, String> {
        let p = a.p;
        let mut buf = vec![0u8; 65535];
        let mut out = vec![0u8; 65535];
        match a.call.as_str() {
            "write" => {
                let End::Hs(h) = &mut self.ends[p] else { return Err("model calls a handshake write on a converted object".into()) };
                let r = h.write_message(b"p", &mut buf);
                if let Ok(l) = r {
                    let k = self.done[p];
                    if k < 4 {
                        self.hs_msgs[k] = Some(buf[..l].to_vec());
                    }
                    self.done[p] += 1;
                }
                Ok(class(r))
            },
            "read" | "garbage" => {
                let msg = if a.call == "garbage" { vec![0x5a; 5] } else { self.hs_msgs[a.arg].clone().ok_or("the model delivers a handshake message the implementation never produced")? };
                let End::Hs(h) = &mut self.ends[p] else { return Err("model calls a handshake read on a converted object".into()) };
                let r = h.read_message(&msg, &mut out);
                if r.is_ok() {
                    self.done[p] += 1;
                }
                Ok(class(r))
            },
            "convert" => {
                let End::Hs(h) = std::mem::replace(&mut self.ends[p], End::Gone) else { return Err("model converts twice".into()) };
                if sl {
                    match h.into_stateless_transport_mode() {
                        Ok(t) => {
                            self.ends[p] = End::S(Box::new(t));
                            Ok("ok")
                        },
                        Err(e) => Ok(class(Err(e))),
                    }
                } else {
                    match h.into_transport_mode() {
                        Ok(t) => {
                            self.ends[p] = End::T(Box::new(t));
                            Ok("ok")
                        },
                        Err(e) => Ok(class(Err(e))),
                    }
                }
            },
            "twrite" => {
                let nonce = self.tmsgs[p].len() as u64;
                let r = match &mut self.ends[p] {
                    End::T(t) => t.write_message(b"transport", &mut buf),
                    End::S(t) => t.write_message(nonce, b"transport", &mut buf),
                    _ => return Err("model writes a transport message before conversion".into()),
                };
                if let Ok(l) = r {
                    self.tmsgs[p].push(buf[..l].to_vec());
                }
                Ok(class(r))
            },
            "tread" => {
                let msg = self.tmsgs[1 - p].get(a.arg).cloned().ok_or("the model delivers a transport message the implementation never produced")?;
                let r = match &mut self.ends[p] {
                    End::T(t) => t.read_message(&msg, &mut out),
                    End::S(t) => t.read_message(a.arg as u64, &msg, &mut out),
                    _ => return Err("model reads a transport message before conversion".into()),
                };
                if let Ok(l) = r {
                    if &out[..l] != b"transport" {
                        return Ok("wrong-payload");
                    }
                }
                Ok(class(r))
            },
            "tgarbage" => {
                let r = match &mut self.ends[p] {
                    End::T(t) => t.read_message(&[0x5a; 5], &mut out),
                    End::S(t) => t.read_message(0, &[0x5a; 5], &mut out),
                    _ => return Err("model reads a transport message before conversion".into()),
                };
                Ok(class(r))
            },
            other => Err(format!("unknown model call {other}")),
        }
    }
    /// the indicators of every party still in the handshake phase vs. what the model position implies
    fn indicators(&self) -> Option<String> {
        for p in 0..2 {
            if let End::Hs(h) = &self.ends[p] {
                let fin = self.done[p] == self.n;
                if h.is_handshake_finished() != fin {
                    return Some(format!("is_handshake_finished() of {} = {}, the model says {fin}", ["I", "R"][p], h.is_handshake_finished()));
                }
                let my_turn = (self.done[p] % 2 == 0) == (p == 0);
                if !fin && h.is_my_turn() != my_turn {
                    return Some(format!("is_my_turn() of {} = {}, the model says {my_turn}", ["I", "R"][p], h.is_my_turn()));
                }
                if h.is_initiator() != (p == 0) {
                    return Some(format!("is_initiator() of {} = {}", ["I", "R"][p], h.is_initiator()));
                }
            }
        }
        None
    }
}

pub enum Verdict {
    Conforms,
    /// a step before the last one already departed from the model (reported by that step's own edge)
    PrefixDiverged,
    Violation(String, String),
}

pub fn replay_path(cfg: &Config, n: usize, sl: bool, path: &[Act]) -> Verdict {
    let r = catch_unwind(AssertUnwindSafe(|| -> Result<Verdict, String> {
        let mut s = Sess::new(cfg, n)?;
        for (i, a) in path.iter().enumerate() {
            let last = i + 1 == path.len();
            let got = match s.step(a, sl) {
                Ok(g) => g,
                Err(_) if !last => return Ok(Verdict::PrefixDiverged),
                Err(e) => return Ok(Verdict::Violation("TLA conformance: the implementation cannot follow the model path".into(), e)),
            };
            if got != a.outcome {
                if !last {
                    return Ok(Verdict::PrefixDiverged);
                }
                let who = ["initiator", "responder"][a.p];
                let want = match a.outcome.as_str() {
                    "ok" => "success",
                    "state" => "the documented state error",
                    _ => "a rejection that is not a state error",
                };
                let saw = match got {
                    "ok" => "success",
                    "state" => "a state error",
                    "wrong-payload" => "success with a different payload",
                    _ => "an error that is not a state error",
                };
                return Ok(Verdict::Violation(format!("TLA conformance: {} by the {who}: model (HsTurn.tla) expects {want}, implementation returned {saw}", a.call), format!("after {} earlier calls", i)));
            }
            if let Some(d) = s.indicators() {
                if !last {
                    return Ok(Verdict::PrefixDiverged);
                }
                return Ok(Verdict::Violation(format!("TLA conformance: indicator differs from the model after {} ({})", a.call, a.outcome), d));
            }
        }
        Ok(Verdict::Conforms)
    }));
    match r {
        Ok(Ok(v)) => v,
        Ok(Err(e)) => Verdict::Violation("TLA conformance: session could not be built".into(), e),
        Err(p) => Verdict::Violation(format!("TLA conformance: panic while following a model path ({})", crate::exec::panic_msg(p)), String::new()),
    }
}

fn acts_json(path: &[Act]) -> Value {
    json!(path.iter().map(|a| json!([a.call, a.p, a.arg, a.outcome])).collect::<Vec<_>>())
}

pub fn run(ctx: &Ctx, protos: &[Proto]) {
    let g = model_graph();
    let mut per_init: Vec<(usize, bool, bool, Vec<Vec<Act>>)> = vec![];
    let mut n_edges = 0usize;
    for i in &g.inits {
        let nd = &g.nodes[*i];
        let paths = edge_paths(&g, *i);
        n_edges += paths.len();
        per_init.push((nd.n, nd.oneway, nd.sl, paths));
    }
    if n_edges != g.edges.len() {
        machinery(&format!("edge walk covers {n_edges} edges, the dumped graph has {}", g.edges.len()));
    }
    let mut by_outcome: HashMap<String, u64> = HashMap::new();
    for (_, _, _, paths) in &per_init {
        for p in paths {
            let l = p.last().unwrap();
            *by_outcome.entry(format!("{}:{}", l.call, l.outcome)).or_insert(0) += 1;
        }
    }
    for need in ["write:ok", "write:state", "read:ok", "read:state", "read:rej", "garbage:state", "garbage:rej", "convert:ok", "convert:state", "twrite:ok", "twrite:state", "tread:ok", "tread:rej", "tgarbage:state", "tgarbage:rej"] {
        if !by_outcome.contains_key(need) {
            machinery(&format!("the TLA+ state graph has no edge {need}: the model no longer exercises that rule"));
        }
    }
    let jobs: Vec<(&Proto, usize)> = protos.iter().flat_map(|p| (0..per_init.len()).map(move |k| (p, k))).filter(|(p, k)| per_init[*k].0 == p.n_msgs() && per_init[*k].1 == p.pattern.is_oneway()).collect();
    let replayed = std::sync::atomic::AtomicU64::new(0);
    let diverged = std::sync::atomic::AtomicU64::new(0);
    let calls = std::sync::atomic::AtomicU64::new(0);
    jobs.par_iter().for_each(|(p, k)| {
        let (n, _, sl, paths) = &per_init[*k];
        let mut cfg = Config::honest(p, 0);
        cfg.crypto_oracle = false;
        paths.par_iter().for_each(|path| {
            replayed.fetch_add(1, std::sync::atomic::Ordering::Relaxed);
            calls.fetch_add(path.len() as u64, std::sync::atomic::Ordering::Relaxed);
            match replay_path(&cfg, *n, *sl, path) {
                Verdict::Conforms => {},
                Verdict::PrefixDiverged => {
                    diverged.fetch_add(1, std::sync::atomic::Ordering::Relaxed);
                },
                Verdict::Violation(sig, d) => ctx.violation(sig, format!("{} ({}): {d}; model path: {}", p.name, if *sl { "stateless" } else { "stateful" }, acts_json(path)), json!({"kind": "tla", "name": p.name, "sl": sl, "n": n, "path": acts_json(path)})),
            }
        });
    });
    let replayed = replayed.into_inner();
    ctx.add(&ctx.evaluations, replayed);
    ctx.add(&ctx.nontrivial, replayed - diverged.into_inner());
    ctx.add(&ctx.traces, replayed);
    ctx.add(&ctx.transitions, calls.into_inner());
    ctx.set(
        "tla_model",
        json!({
            "module": "tla/HsTurn.tla", "checker": "TLC (tlc -dump dot)", "distinct_states": g.tlc_distinct, "states_generated": g.tlc_generated, "depth": g.tlc_depth,
            "edges": g.edges.len(), "initial_states": g.inits.len(),
            "invariants_checked_by_tlc": ["TypeOK", "NeverBothWriters", "PositionsClose", "WireIsPrefix", "TransportOnlyAfterLast", "OneWayRule", "AcceptedWasWritten"],
            "edges_by_call_and_outcome": by_outcome,
            "conformance": "every edge of the dumped graph replayed on real snow objects (shortest model path to its source + the edge's call), for every protocol name of matching shape, stateful and stateless",
            "model_paths_replayed": replayed, "names": protos.len(),
        }),
    );
}

pub fn replay(case: &Value) -> Result<(), String> {
    let name = case["name"].as_str().ok_or("bad case")?;
    let proto = Proto::parse(name).ok_or("unknown protocol name")?;
    let path: Vec<Act> = case["path"]
        .as_array()
        .ok_or("bad case")?
        .iter()
        .map(|a| Act { call: a[0].as_str().unwrap_or("").into(), p: a[1].as_u64().unwrap_or(0) as usize, arg: a[2].as_u64().unwrap_or(0) as usize, outcome: a[3].as_str().unwrap_or("").into() })
        .collect();
    let mut cfg = Config::honest(&proto, 0);
    cfg.crypto_oracle = false;
    match replay_path(&cfg, case["n"].as_u64().unwrap_or(0) as usize, case["sl"].as_bool().unwrap_or(false), &path) {
        Verdict::Conforms => Ok(()),
        Verdict::PrefixDiverged => Err("the path departs from the model before its last call".into()),
        Verdict::Violation(s, d) => Err(format!("{s}: {d}")),
    }
}
