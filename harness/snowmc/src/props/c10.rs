//! C10 Total API: no public operation panics, aborts or fails to terminate on any input (E1).
//! Every call is made inside catch_unwind at the call boundary; a watchdog thread reports a case
//! that does not return within 300 s.

use crate::{
    ctx::{Ctx, Tier},
    exec::{key_bytes, panic_msg, Alter, Cap, Cat, Config, Eph, Exec, Msg, Op, Real, Side, SIDES},
    seam::{Backend, Log, RngMode, SeamResolver},
    sess::{self, Mode},
};
use rayon::prelude::*;
use refnoise::{patterns, state::field_map, CipherAlg, DhAlg, HashAlg, Proto};
use serde_json::json;
use snow::{params::NoiseParams, Builder};
use std::{
    panic::{catch_unwind, AssertUnwindSafe},
    sync::{
        atomic::{AtomicU64, Ordering},
        Mutex,
    },
};

// ---- watchdog -------------------------------------------------------------------------------
static HEART: [AtomicU64; 64] = [const { AtomicU64::new(0) }; 64];
static CURRENT: Mutex<Vec<(u64, String)>> = Mutex::new(Vec::new());

/// a batch of probes (at most a few thousand cheap calls, normally milliseconds) that has not finished after this
/// long is a call that does not return; monotonic clock, generous enough for a heavily loaded machine
const HANG_MS: u64 = 300_000;
fn mono_ms() -> u64 {
    static T0: std::sync::OnceLock<std::time::Instant> = std::sync::OnceLock::new();
    T0.get_or_init(std::time::Instant::now).elapsed().as_millis() as u64 + 1
}

fn slot() -> usize {
    rayon::current_thread_index().unwrap_or(63) % 64
}
fn begin(desc: impl FnOnce() -> String) {
    let s = slot();
    let t = mono_ms();
    HEART[s].store(t, Ordering::Relaxed);
    if let Ok(mut g) = CURRENT.try_lock() {
        if g.len() < 64 {
            g.resize(64, (0, String::new()));
        }
        g[s] = (t, desc());
    }
}
fn end() {
    HEART[slot()].store(0, Ordering::Relaxed);
}
fn start_watchdog() {
    std::thread::spawn(|| loop {
        std::thread::sleep(std::time::Duration::from_secs(2));
        let now = mono_ms();
        for (k, h) in HEART.iter().enumerate() {
            let t = h.load(Ordering::Relaxed);
            if t != 0 && now.saturating_sub(t) > HANG_MS {
                let d = CURRENT.lock().map(|g| g.get(k).map(|x| x.1.clone()).unwrap_or_default()).unwrap_or_default();
                println!("  signature: a public operation did not return within {} s", HANG_MS / 1000);
                println!("  detail: {d}");
                let _ = std::fs::create_dir_all(format!("{}/replays", *crate::ctx::VERIF_DIR));
                let _ = std::fs::write(format!("{}/replays/C10-hang.json", *crate::ctx::VERIF_DIR), serde_json::to_string_pretty(&json!({"property": "C10", "signature": "hang", "detail": d, "case": {"kind": "hang", "desc": d}})).unwrap());
                println!("VIOLATION property=C10 replay={}/replays/C10-hang.json", *crate::ctx::VERIF_DIR);
                std::process::exit(1);
            }
        }
    });
}

// ---- names ----------------------------------------------------------------------------------
fn name_strings() -> Vec<String> {
    let mut v: Vec<String> = vec![];
    let seeds = ["Noise_XX_25519_ChaChaPoly_SHA256", "Noise_IKpsk1+psk2_P256_XChaChaPoly_BLAKE2b", "Noise_X1X1fallback+psk0_448_AESGCM_SHA512", "Noise_Npsk0_25519_AESGCM_BLAKE2s"];
    let alphabet: Vec<char> = "_+pskf019NXKI1nx \0\u{e9}\u{2603}\u{1f980}\u{7f}\u{80}".chars().collect();
    for s in seeds {
        let chars: Vec<char> = s.chars().collect();
        for i in 0..=chars.len() {
            for a in &alphabet {
                let mut d = chars.clone();
                d.insert(i, *a);
                v.push(d.iter().collect());
                if i < chars.len() {
                    let mut d = chars.clone();
                    d[i] = *a;
                    v.push(d.iter().collect());
                }
            }
            if i < chars.len() {
                let mut d = chars.clone();
                d.remove(i);
                v.push(d.iter().collect());
                v.push(s[..s.char_indices().nth(i).unwrap().0].to_string());
            }
        }
    }
    // multi-byte characters at every byte offset of the handshake field, long psk numbers, huge names
    for pre in ["", "X", "XX", "X1X", "X1X1", "X1X1p"] {
        for ch in ["\u{e9}", "\u{2603}", "\u{1f980}"] {
            v.push(format!("Noise_{pre}{ch}_25519_AESGCM_SHA256"));
            v.push(format!("Noise_{pre}{ch}psk0_25519_AESGCM_SHA256"));
        }
    }
    for n in ["psk", "psk256", "psk99999999999999999999", "psk-0", "psk+", "psk0+", "+", "++", "psk\u{663}"] {
        v.push(format!("Noise_XX{n}_25519_AESGCM_SHA256"));
    }
    v.push("Noise_".to_string() + &"X".repeat(100_000));
    v.push("_".repeat(10_000));
    v.push(format!("Noise_XX{}_25519_AESGCM_SHA256", "+psk1".repeat(300)));
    v.push(String::new());
    v
}

fn check_name(ctx: &Ctx, s: &str) {
    begin(|| format!("parse {s:?}"));
    let r = catch_unwind(AssertUnwindSafe(|| s.parse::<NoiseParams>()));
    ctx.add(&ctx.evaluations, 1);
    match r {
        Err(p) => ctx.violation(format!("str::parse::<NoiseParams> panicked ({})", panic_msg(p)), format!("{:?}", s.chars().take(80).collect::<String>()), json!({"kind": "name", "name": s})),
        Ok(Ok(params)) => {
            // whatever parses can be handed to the builder: both roles, with keys
            ctx.add(&ctx.nontrivial, 1);
            for init in [true, false] {
                let r = catch_unwind(AssertUnwindSafe(|| {
                    let k = key_bytes(1);
                    let pk = refnoise::DhAlg::X25519.pubkey(&key_bytes(2)).unwrap();
                    let pk = if format!("{:?}", params.dh) == "P256" { refnoise::DhAlg::P256.pubkey(&key_bytes(2)).unwrap() } else { pk };
                    let b = Builder::new(params.clone()).local_private_key(&k).and_then(|b| b.remote_public_key(&pk)).and_then(|b| b.prologue(b"p"));
                    b.and_then(|b| if init { b.build_initiator() } else { b.build_responder() }).map(|_| ())
                }));
                if let Err(p) = r {
                    ctx.violation(format!("Builder::build panicked on a parsed name ({})", panic_msg(p)), format!("{s:?}"), json!({"kind": "name", "name": s}));
                }
            }
            // ... and asked for a key pair (whatever DH function the name selects; Err for one the resolver lacks)
            let r = catch_unwind(AssertUnwindSafe(|| Builder::new(params.clone()).generate_keypair().map(|k| (k.private.len(), k.public.len()))));
            match r {
                Err(p) => {
                    let m = panic_msg(p);
                    // a P-256 scalar that happens to be 0 or >= n is the recorded finding; OS randomness makes it a 2^-32 event
                    ctx.violation(format!("Builder::generate_keypair panicked ({m})"), format!("{s:?}"), json!({"kind": "name", "name": s}));
                },
                Ok(Ok((a, b))) if a == 0 || b == 0 => ctx.violation("Builder::generate_keypair returned an empty key", format!("{s:?}"), json!({"kind": "name", "name": s})),
                _ => {},
            }
        },
        Ok(Err(_)) => {},
    }
    end();
}

// ---- builder --------------------------------------------------------------------------------
fn builder_sweep(ctx: &Ctx) {
    // (name, which key has the swept length, length, prologue length, role, which of the OTHER keys are supplied:
    //  bit 0 = the first other key in {local, remote, fixed ephemeral} order, bit 1 = the second)
    let mut cases: Vec<(String, usize, usize, usize, bool, u8)> = vec![];
    for pat in ["NN", "XX", "IK", "K", "N", "NK", "KN", "X"] {
        for dh in ["25519", "P256"] {
            let name = format!("Noise_{pat}_{dh}_ChaChaPoly_SHA256");
            for which in 0..3 {
                for len in 0..=200usize {
                    for init in [true, false] {
                        for others in 0..4u8 {
                            cases.push((name.clone(), which, len, 0, init, others));
                        }
                    }
                }
            }
            for plog in [0usize, 1, 65535, 100_000] {
                cases.push((name.clone(), 3, 32, plog, true, 3));
            }
        }
    }
    cases.par_iter().for_each(|(name, which, len, plog, init, others)| {
        begin(|| format!("builder {name} field {which} len {len}"));
        let dh = if name.contains("P256") { DhAlg::P256 } else { DhAlg::X25519 };
        // key bytes: a valid scalar pattern truncated / extended to `len`
        let mut key: Vec<u8> = key_bytes(5);
        key.resize(*len, 0x11);
        let good_sk = key_bytes(1);
        let good_pk = dh.pubkey(&key_bytes(2)).unwrap();
        let prologue = vec![7u8; *plog];
        let r = catch_unwind(AssertUnwindSafe(|| {
            let mut b = Builder::new(name.parse().unwrap());
            b = b.prologue(&prologue)?;
            // the swept key is always supplied; each other key is supplied (with a good value) or left out
            let mut bit = 0;
            let mut supplied = |k: usize| -> bool {
                if k == *which {
                    return true;
                }
                let on = others >> bit & 1 == 1;
                bit += 1;
                on
            };
            if supplied(0) {
                b = b.local_private_key(if *which == 0 { &key } else { &good_sk })?;
            }
            if supplied(1) {
                b = b.remote_public_key(if *which == 1 { &key } else { &good_pk })?;
            }
            if supplied(2) {
                b = b.fixed_ephemeral_key_for_testing_only(if *which == 2 { &key } else { &good_sk });
            }
            let h = if *init { b.build_initiator() } else { b.build_responder() }?;
            // a successfully built state must also survive its first step
            let mut h = h;
            let mut buf = vec![0u8; 1024];
            if *init {
                let _ = h.write_message(&[], &mut buf);
            } else {
                let _ = h.read_message(&buf[..96], &mut [0u8; 256]);
            }
            Ok::<(), snow::Error>(())
        }));
        ctx.add(&ctx.evaluations, 1);
        ctx.add(&ctx.nontrivial, 1);
        if let Err(p) = r {
            let field = ["local_private_key", "remote_public_key", "fixed_ephemeral_key", "prologue"][*which];
            let class = if *len == 32 || (*which == 1 && *len == dh.publen()) { "of the right length" } else if *len < 32 { "shorter than the DH's key length" } else { "longer than the DH's key length" };
            ctx.violation(format!("Builder panicked on a {field} {class} ({})", panic_msg(p)), format!("{name} len {len} prologue {plog} other keys supplied: {others:02b}"), json!({"kind": "builder", "name": name, "which": which, "len": len, "plog": plog, "init": init, "others": others}));
        }
        end();
    });
    ctx.count("builder_cases", cases.len() as u64);
    // every pattern (and a psk variant) x both roles x every subset of {local static, remote static, fixed ephemeral,
    // psk} supplied with well-formed values: building - and the first step of whatever was built - returns
    let mut subset_cases: Vec<(String, bool, u8)> = vec![];
    for b in refnoise::patterns::base_patterns() {
        for dh in ["25519", "P256"] {
            for m in ["", "psk0", "psk1"] {
                let name = format!("Noise_{}{m}_{dh}_AESGCM_BLAKE2s", b.name);
                if name.parse::<snow::params::NoiseParams>().is_err() {
                    continue;
                }
                for init in [true, false] {
                    for mask in 0..16u8 {
                        subset_cases.push((name.clone(), init, mask));
                    }
                }
            }
        }
    }
    subset_cases.par_iter().for_each(|(name, init, mask)| {
        begin(|| format!("builder {name} key subset {mask:04b}"));
        let dh = if name.contains("P256") { DhAlg::P256 } else { DhAlg::X25519 };
        let sk = key_bytes(1);
        let pk = dh.pubkey(&key_bytes(2)).unwrap();
        let r = catch_unwind(AssertUnwindSafe(|| {
            let mut b = Builder::new(name.parse().unwrap());
            if mask & 1 != 0 {
                b = b.local_private_key(&sk)?;
            }
            if mask & 2 != 0 {
                b = b.remote_public_key(&pk)?;
            }
            if mask & 4 != 0 {
                b = b.fixed_ephemeral_key_for_testing_only(&sk);
            }
            if mask & 8 != 0 {
                b = b.psk(if name.contains("psk1") { 1 } else { 0 }, &[7u8; 32])?;
            }
            let mut h = if *init { b.build_initiator() } else { b.build_responder() }?;
            let mut buf = vec![0u8; 1024];
            if *init {
                let _ = h.write_message(&[], &mut buf);
            } else {
                let _ = h.read_message(&buf[..96], &mut [0u8; 256]);
            }
            let _ = h.get_remote_static().map(<[u8]>::len);
            Ok::<(), snow::Error>(())
        }));
        ctx.add(&ctx.evaluations, 1);
        ctx.add(&ctx.nontrivial, 1);
        if let Err(p) = r {
            ctx.violation(format!("Builder panicked on a subset of well-formed keys ({})", panic_msg(p)), format!("{name} {} supplied: local static {}, remote static {}, fixed ephemeral {}, psk {}", if *init { "initiator" } else { "responder" }, mask & 1 != 0, mask & 2 != 0, mask & 4 != 0, mask & 8 != 0), json!({"kind": "builder", "name": name, "mask": mask, "init": init}));
        }
        end();
    });
    ctx.count("builder_key_subset_cases", subset_cases.len() as u64);
    // psk positions and lengths, Builder::psk and HandshakeState::set_psk
    for loc in 0..=12u8 {
        let r = catch_unwind(|| {
            let _ = Builder::new("Noise_NNpsk0_25519_ChaChaPoly_SHA256".parse().unwrap()).psk(loc, &[1u8; 32]).and_then(|b| b.psk(loc, &[2u8; 32]));
        });
        ctx.add(&ctx.evaluations, 1);
        if let Err(p) = r {
            ctx.violation(format!("Builder::psk panicked ({})", panic_msg(p)), format!("location {loc}"), json!({"kind": "psk", "loc": loc}));
        }
    }
}

/// P-256 private keys that are not valid scalars, and RNG streams that produce them
fn p256_invalid_scalars(ctx: &Ctx) {
    let n = hex::decode("ffffffff00000000ffffffffffffffffbce6faada7179e84f3b9cac2fc632551").unwrap();
    let mut n1 = n.clone();
    n1[31] += 1;
    for (what, key) in [("zero", vec![0u8; 32]), ("the group order n", n.clone()), ("n + 1", n1), ("2^256 - 1", vec![0xff; 32])] {
        for which in ["local_private_key", "fixed_ephemeral_key"] {
            begin(|| format!("P256 {which} = {what}"));
            let good = key_bytes(1);
            let r = catch_unwind(AssertUnwindSafe(|| {
                let mut b = Builder::new("Noise_XX_P256_ChaChaPoly_SHA256".parse().unwrap());
                if which == "local_private_key" {
                    b = b.local_private_key(&key)?;
                } else {
                    b = b.local_private_key(&good)?.fixed_ephemeral_key_for_testing_only(&key);
                }
                let mut h = b.build_initiator()?;
                let mut buf = vec![0u8; 1024];
                let _ = h.write_message(&[], &mut buf);
                Ok::<(), snow::Error>(())
            }));
            ctx.add(&ctx.evaluations, 1);
            if let Err(p) = r {
                ctx.violation(format!("Builder panicked on a P-256 private key that is not a valid scalar (0 or >= n) ({})", panic_msg(p)), format!("{which} = {what}"), json!({"kind": "p256-scalar", "which": which, "what": what}));
            }
            end();
        }
    }
    // an RNG that hands out an invalid scalar: generate_keypair and the `e` token
    struct ZeroRng;
    impl rand_core::RngCore for ZeroRng {
        fn next_u32(&mut self) -> u32 {
            0
        }
        fn next_u64(&mut self) -> u64 {
            0
        }
        fn fill_bytes(&mut self, d: &mut [u8]) {
            d.fill(0);
        }
        fn try_fill_bytes(&mut self, d: &mut [u8]) -> Result<(), rand_core::Error> {
            d.fill(0);
            Ok(())
        }
    }
    impl rand_core::CryptoRng for ZeroRng {}
    impl snow::types::Random for ZeroRng {}
    struct ZeroRes;
    impl snow::resolvers::CryptoResolver for ZeroRes {
        fn resolve_rng(&self) -> Option<Box<dyn snow::types::Random>> {
            Some(Box::new(ZeroRng))
        }
        fn resolve_dh(&self, c: &snow::params::DHChoice) -> Option<Box<dyn snow::types::Dh>> {
            snow::resolvers::DefaultResolver.resolve_dh(c)
        }
        fn resolve_hash(&self, c: &snow::params::HashChoice) -> Option<Box<dyn snow::types::Hash>> {
            snow::resolvers::DefaultResolver.resolve_hash(c)
        }
        fn resolve_cipher(&self, c: &snow::params::CipherChoice) -> Option<Box<dyn snow::types::Cipher>> {
            snow::resolvers::DefaultResolver.resolve_cipher(c)
        }
    }
    for dh in ["25519", "P256"] {
        let name = format!("Noise_NN_{dh}_ChaChaPoly_SHA256");
        let r = catch_unwind(AssertUnwindSafe(|| {
            let _ = Builder::with_resolver(name.parse().unwrap(), Box::new(ZeroRes)).generate_keypair();
            let mut h = Builder::with_resolver(name.parse().unwrap(), Box::new(ZeroRes)).build_initiator()?;
            let mut buf = vec![0u8; 256];
            let _ = h.write_message(&[], &mut buf);
            Ok::<(), snow::Error>(())
        }));
        ctx.add(&ctx.evaluations, 1);
        if let Err(p) = r {
            ctx.violation(format!("key generation panicked when the RNG returned bytes that are not a valid scalar (0 or >= n) ({})", panic_msg(p)), name.clone(), json!({"kind": "rng-scalar", "name": name}));
        }
    }
}

// ---- sessions -------------------------------------------------------------------------------
fn buflens(bounds: &[usize]) -> Vec<usize> {
    let mut v = vec![0usize, 1, 65534, 65535, 65536, 66000];
    for b in bounds {
        for d in [-1isize, 0, 1, 15, 16, 17] {
            let x = *b as isize + d;
            if x >= 0 {
                v.push(x as usize);
            }
        }
    }
    v.sort_unstable();
    v.dedup();
    v
}

/// probe calls for a handshake state at position `k` (k may equal n_msgs: finished)
fn hs_probes(p: &Proto, k: usize, thorough: bool) -> Vec<Op> {
    let mut out = vec![];
    let n = p.n_msgs();
    let kk = k.min(n - 1);
    let fields = field_map(p, kk, 4);
    let mut bounds: Vec<usize> = fields.iter().flat_map(|f| [f.start, f.start + f.len]).collect();
    bounds.dedup();
    let caps = buflens(&bounds);
    for s in SIDES {
        for plen in if thorough { vec![0usize, 4, 65535, 65536] } else { vec![0usize, 4, 65536] } {
            for c in &caps {
                if plen > 1000 && *c < 60000 && *c > 200 {
                    continue;
                }
                out.push(Op::HsWrite { side: s, plen, cap: Cap::Exact(*c) });
            }
        }
        // reads: genuine (when the peer has written), damaged at every boundary, constants, wrong index
        let total: usize = fields.iter().map(|f| f.len).sum();
        let mut msgs: Vec<Msg> = vec![Msg::Garbage(0, 0), Msg::Garbage(1, 0xff), Msg::Garbage(total, 0), Msg::Garbage(total, 0xff), Msg::Garbage(65535, 0), Msg::Garbage(65536, 0xff), Msg::Garbage(66000, 1)];
        for b in &bounds {
            for d in [-1isize, 0, 1] {
                let x = *b as isize + d;
                if x >= 0 {
                    msgs.push(Msg::Garbage(x as usize, 0x42));
                    msgs.push(Msg::Altered(Box::new(Msg::Last(s.peer())), Alter::Trunc(x as usize)));
                }
            }
        }
        msgs.push(Msg::Last(s.peer()));
        msgs.push(Msg::Last(s));
        msgs.push(Msg::Wire(s.peer(), 0));
        msgs.push(Msg::Altered(Box::new(Msg::Last(s.peer())), Alter::Extend(1, 0)));
        msgs.push(Msg::Altered(Box::new(Msg::Last(s.peer())), Alter::Extend(66000, 0)));
        for m in msgs {
            for c in [0usize, 1, 3, 4, 5, 20, 70000] {
                out.push(Op::HsRead { side: s, msg: m.clone(), cap: Cap::Exact(c) });
            }
        }
        for loc in 0..=12usize {
            for klen in [0usize, 31, 32, 33] {
                out.push(Op::SetPsk { side: s, loc, klen });
            }
        }
        out.push(Op::RawSplit { side: s });
    }
    out
}

fn transport_probes(stateless: bool) -> Vec<Op> {
    let mut out = vec![];
    let nonces = [0u64, 1, 1 << 32, u64::MAX - 1, u64::MAX];
    for s in SIDES {
        for plen in [0usize, 1, 65519, 65520, 65535, 65536] {
            for c in [0usize, 1, 15, 16, 17, plen + 15, plen + 16, plen + 17, 70000] {
                if stateless {
                    for n in nonces {
                        out.push(Op::SWrite { side: s, nonce: n, plen, cap: Cap::Exact(c) });
                    }
                } else {
                    out.push(Op::TWrite { side: s, plen, cap: Cap::Exact(c) });
                }
            }
        }
        for m in [Msg::Garbage(0, 0), Msg::Garbage(1, 0), Msg::Garbage(15, 0), Msg::Garbage(16, 0), Msg::Garbage(17, 0xff), Msg::Garbage(65535, 0), Msg::Garbage(65536, 0), Msg::Garbage(66000, 0), Msg::Last(s.peer()), Msg::Last(s), Msg::Altered(Box::new(Msg::Last(s.peer())), Alter::TruncBy(1))] {
            for c in [0usize, 1, 16, 70000] {
                if stateless {
                    for n in nonces {
                        out.push(Op::SRead { side: s, nonce: n, msg: m.clone(), cap: Cap::Exact(c) });
                    }
                } else {
                    out.push(Op::TRead { side: s, msg: m.clone(), cap: Cap::Exact(c) });
                }
            }
        }
        if !stateless {
            for n in nonces {
                out.push(Op::SetRecvNonce { side: s, n });
                out.push(Op::TRead { side: s, msg: Msg::Last(s.peer()), cap: Cap::Roomy });
                out.push(Op::SetSendNonce { side: s, n });
                out.push(Op::TWrite { side: s, plen: 1, cap: Cap::Roomy });
            }
        }
        out.push(Op::RekeyOut { side: s });
        out.push(Op::RekeyIn { side: s });
        out.push(Op::RekeyManual { side: s, i: Some(1), r: None });
    }
    out
}

fn session_sweep(ctx: &Ctx, p: &Proto, thorough: bool) {
    let mut cfg = Config::honest(p, 0);
    cfg.crypto_oracle = false;
    // half of the names run on scripted RNG (the `e` generation path), half on fixed ephemerals
    if p.name.len() % 2 == 0 {
        cfg.eph = [Eph::Scripted(31), Eph::Scripted(32)];
    }
    let honest = sess::handshake_ops(p, &[4, 4, 4, 4]);
    let n = p.n_msgs();
    // every reachable handshake state: honest prefix of j calls (0..=2n), and each of those after one failed call
    for j in 0..=2 * n {
        let prefix: Vec<Op> = honest[..j].to_vec();
        let probes = hs_probes(p, j / 2, thorough);
        for after_failure in [None, Some(Op::HsRead { side: Side::I, msg: Msg::Garbage(40, 1), cap: Cap::Roomy }), Some(Op::HsWrite { side: Side::R, plen: 4, cap: Cap::Exact(33) })] {
            if !thorough && after_failure.is_some() && j % 2 == 1 {
                continue;
            }
            // the failing probes leave the state untouched (C07), so one session serves many probes; a probe
            // that succeeds changes the state and ends the batch
            let mut idx = 0;
            while idx < probes.len() {
                begin(|| format!("{} prefix {j} probe {idx}", p.name));
                let mut e = Exec::new(&cfg);
                for op in &prefix {
                    e.step(op);
                }
                if let Some(f) = &after_failure {
                    e.step(f);
                }
                while idx < probes.len() {
                    let op = &probes[idx];
                    idx += 1;
                    e.step(op);
                    let st = e.steps.last().unwrap();
                    ctx.add(&ctx.evaluations, 1);
                    match &st.real {
                        Real::Panic(m) => {
                            let mut ops = prefix.clone();
                            if let Some(f) = &after_failure {
                                ops.push(f.clone());
                            }
                            ops.push(op.clone());
                            ctx.violation(format!("{} panicked ({m})", sess::op_kind(op).split('(').next().unwrap_or("call")), format!("{}: after {j} honest calls: {op:?}", p.name), sess::case_json(&cfg, &ops));
                            break;
                        },
                        Real::Ok(..) if !matches!(op, Op::SetPsk { .. } | Op::RawSplit { .. }) => break,
                        _ => {},
                    }
                }
                // getters never panic
                for s in SIDES {
                    if let Some(q) = query_panics(&e, s) {
                        let mut c = sess::case_json(&cfg, &prefix);
                        c["kind"] = json!("query");
                        ctx.violation(format!("a state query panicked ({q})"), format!("{} {s:?} after {j} calls", p.name), c);
                    }
                }
                end();
            }
        }
        // conversions at any time
        for conv in [Op::ToTransport { side: Side::I }, Op::ToStateless { side: Side::I }, Op::ToTransport { side: Side::R }, Op::ToStateless { side: Side::R }, Op::TryIntoTransport { side: Side::I }, Op::TryIntoStateless { side: Side::R }] {
            let mut ops = prefix.clone();
            ops.push(conv.clone());
            let e = Exec::run(&cfg, &ops);
            ctx.add(&ctx.evaluations, 1);
            if let Some(m) = sess::filter(&e, &[Cat::Panic]).first() {
                ctx.violation(format!("{} panicked", sess::op_kind(&conv).split('(').next().unwrap_or("conversion")), format!("{}: {}", p.name, m.detail), sess::case_json(&cfg, &ops));
            }
        }
    }
    ctx.add(&ctx.nontrivial, 2 * n as u64 + 1);
    // transport, both modes
    for stateless in [false, true] {
        let mut prefix = honest.clone();
        prefix.extend(sess::convert_ops(if stateless { Mode::SS } else { Mode::TT }));
        prefix.push(if stateless { Op::SWrite { side: Side::I, nonce: 0, plen: 3, cap: Cap::Roomy } } else { Op::TWrite { side: Side::I, plen: 3, cap: Cap::Roomy } });
        let probes = transport_probes(stateless);
        begin(|| format!("{} transport probes", p.name));
        let mut e = Exec::new(&cfg);
        for op in &prefix {
            e.step(op);
        }
        for op in &probes {
            e.step(op);
            ctx.add(&ctx.evaluations, 1);
            if let Real::Panic(m) = &e.steps.last().unwrap().real {
                let mut ops = prefix.clone();
                ops.push(op.clone());
                ctx.violation(format!("{} panicked ({m})", sess::op_kind(op).split('(').next().unwrap_or("call")), format!("{}: {op:?}", p.name), sess::case_json(&cfg, &ops));
            }
        }
        // state queries of the transport objects, after all those probes
        for s in SIDES {
            if let Some(q) = query_panics(&e, s) {
                let mut ops = prefix.clone();
                ops.extend(probes.iter().cloned());
                let mut c = sess::case_json(&cfg, &ops);
                c["kind"] = json!("query");
                ctx.violation(format!("a state query panicked ({q})"), format!("{} {s:?} in transport mode", p.name), c);
            }
        }
        end();
    }
}

pub fn run(tier: Tier) -> i32 {
    let ctx = Ctx::new("C10", tier, "fault_enumeration");
    let thorough = !ctx.quick();
    start_watchdog();
    ctx.set_rule("every case is one public call made inside catch_unwind: parsing (single-edit, non-ASCII, oversized strings) and building whatever parses; Builder with local/remote/fixed-ephemeral keys of every length 0..=200 x {25519, P256} x 8 patterns x every subset of the other keys x both roles, every pattern (+psk0/psk1) x {25519, P256} x both roles x every subset of well-formed {local, remote, fixed ephemeral, psk}, prologues up to 100 000 bytes, psk positions 0..=12; for every handshake name of a suite and both DH functions: every reachable handshake state (honest prefix of 0..=2n calls, also after one failed call) x write_message with payload {0,4,65535,65536} x buffer lengths around every field boundary and {0,1,65534..66000} x read_message with genuine / truncated-at-every-boundary / constant / wrong-index / oversize messages x payload buffers {0,1,3,4,5,20,70000} x set_psk(0..=12, len {0,31,32,33}) x both conversions x getters; both transport modes with boundary nonces and sizes. Oracle: the call returns. A watchdog reports a call that does not return within 300 s");
    let names = name_strings();
    names.par_iter().for_each(|s| check_name(&ctx, s));
    ctx.count("name_strings", names.len() as u64);
    builder_sweep(&ctx);
    p256_invalid_scalars(&ctx);
    let mut protos: Vec<Proto> = vec![];
    let all = patterns::all_protos_for_suite(DhAlg::X25519, CipherAlg::ChaChaPoly, HashAlg::Sha256);
    for (k, p) in all.into_iter().enumerate() {
        if thorough || p.psks.is_empty() || k % 4 == 0 {
            protos.push(p);
        }
    }
    for (k, b) in patterns::base_patterns().iter().enumerate() {
        protos.push(Proto::new(b, &[], DhAlg::P256, CipherAlg::AesGcm, HashAlg::Sha512).unwrap());
        protos.push(Proto::new(b, &[(k % (b.msgs.len() + 1)) as u8], DhAlg::P256, CipherAlg::XChaChaPoly, HashAlg::Blake2b).unwrap());
    }
    if thorough {
        protos.extend(patterns::all_protos_for_suite(DhAlg::P256, CipherAlg::AesGcm, HashAlg::Blake2s));
    }
    ctx.count("session_names", protos.len() as u64);
    // ring backend for a few names
    protos.par_iter().for_each(|p| session_sweep(&ctx, p, thorough));
    let _ = (Backend::Ring, Log::new(), RngMode::Os, SeamResolver::new);
    let ev = ctx.evaluations.load(Ordering::Relaxed);
    ctx.states.store(ev, Ordering::Relaxed);
    ctx.transitions.store(ev, Ordering::Relaxed);
    ctx.traces.store(ev, Ordering::Relaxed);
    ctx.nontrivial.store(ev, Ordering::Relaxed);
    ctx.sample(json!({"kind": "session", "name": protos[0].name, "probe": hs_probes(&protos[0], 1, false)[17]}));
    ctx.sample(json!({"kind": "builder", "name": "Noise_IK_P256_ChaChaPoly_SHA256", "field": "remote_public_key", "len": 66}));
    ctx.sample(json!({"kind": "name", "name": "Noise_X1\u{e9}_25519_AESGCM_SHA256"}));
    ctx.assume("aborts (allocation failure) cannot occur below the sizes used (largest input 100 000 bytes); a process abort would surface as a machinery error naming no case");
    ctx.assume("overflow checks and debug assertions are enabled in the harness profile for snow: a panic that only a debug build shows is still a panic");
    *ctx.exhaustive.lock().unwrap() = Some(false);
    ctx.finish()
}

/// every state query of whatever object the side currently holds, each inside catch_unwind
fn query_panics(e: &Exec, s: Side) -> Option<String> {
    use crate::exec::RealEnd;
    let probe = |name: &str, f: &dyn Fn()| -> Option<String> { catch_unwind(AssertUnwindSafe(f)).err().map(|p| format!("{name}: {}", panic_msg(p))) };
    if let Some(p) = match &e.real[s.idx()] {
        RealEnd::Hs(h) => probe("Debug::fmt", &|| {
            let _ = format!("{h:?}");
        }),
        RealEnd::T(t) => probe("Debug::fmt", &|| {
            let _ = format!("{t:?}");
        }),
        RealEnd::S(t) => probe("Debug::fmt", &|| {
            let _ = format!("{t:?}");
        }),
        RealEnd::Gone => None,
    } {
        return Some(p);
    }
    match &e.real[s.idx()] {
        RealEnd::Hs(h) => probe("is_my_turn", &|| {
            let _ = h.is_my_turn();
        })
        .or_else(|| probe("is_handshake_finished", &|| {
            let _ = h.is_handshake_finished();
        }))
        .or_else(|| probe("is_initiator", &|| {
            let _ = h.is_initiator();
        }))
        .or_else(|| probe("get_handshake_hash", &|| {
            let _ = h.get_handshake_hash().len();
        }))
        .or_else(|| probe("get_remote_static", &|| {
            let _ = h.get_remote_static().map(<[u8]>::len);
        }))
        .or_else(|| probe("was_write_payload_encrypted", &|| {
            let _ = h.was_write_payload_encrypted();
        })),
        RealEnd::T(t) => probe("get_remote_static", &|| {
            let _ = t.get_remote_static().map(<[u8]>::len);
        })
        .or_else(|| probe("sending_nonce", &|| {
            let _ = t.sending_nonce();
        }))
        .or_else(|| probe("receiving_nonce", &|| {
            let _ = t.receiving_nonce();
        }))
        .or_else(|| probe("is_initiator", &|| {
            let _ = t.is_initiator();
        })),
        RealEnd::S(t) => probe("get_remote_static", &|| {
            let _ = t.get_remote_static().map(<[u8]>::len);
        })
        .or_else(|| probe("is_initiator", &|| {
            let _ = t.is_initiator();
        })),
        RealEnd::Gone => None,
    }
}

pub fn replay(case: &serde_json::Value) -> Result<(), String> {
    if case["kind"] == "query" {
        let (cfg, ops) = sess::case_from_json(case).ok_or("bad case")?;
        let e = sess::run(&cfg, &ops);
        for s in SIDES {
            if let Some(q) = query_panics(&e, s) {
                return Err(format!("a state query panicked ({q}) by {s:?}"));
            }
        }
        return Ok(());
    }
    match case["kind"].as_str() {
        Some("exec") => {
            let (cfg, ops) = sess::case_from_json(case).ok_or("bad case")?;
            let e = sess::run(&cfg, &ops);
            match e.steps.iter().find(|s| matches!(s.real, Real::Panic(_))) {
                Some(s) => Err(format!("{:?} -> {}", s.op, s.real.short())),
                None => Ok(()),
            }
        },
        _ => {
            let ctx = Ctx::new("C10", Tier::Quick, "fault_enumeration");
            match case["kind"].as_str() {
                Some("name") => check_name(&ctx, case["name"].as_str().unwrap_or("")),
                Some("builder") | Some("psk") => builder_sweep(&ctx),
                _ => p256_invalid_scalars(&ctx),
            }
            let v = ctx.violations.lock().unwrap();
            v.first().map_or(Ok(()), |x| Err(format!("{}: {}", x.signature, x.detail)))
        },
    }
}
