//! C04 Transport messages are authenticated: only the peer's message for this session,
//! direction and nonce is accepted (E1). Oracle: the abstract provenance model of the executor.

use super::common::*;
use crate::{
    ctx::{Ctx, Tier},
    exec::{Alter, Cap, Cat, Config, Eph, Exec, Msg, Op, Side, key_bytes},
    seam::Backend,
    sess::{self, Mode},
};
use rayon::prelude::*;
use refnoise::{patterns, DhAlg, HashAlg, Proto};
use serde_json::json;

// "Ok only for the peer's message ... and then exactly the payload": acceptance of a genuine message is not
// demanded here (C02/C05 do), so ExpectedOkGotErr is not judged; a run in which nothing is accepted is vacuous
const CATS: [Cat; 4] = [Cat::ExpectedErrGotOk, Cat::OutBytes, Cat::OutLen, Cat::Panic];

pub fn nonces() -> Vec<u64> {
    let mut v = vec![0u64, 1, 2, 1 << 8, 1 << 16, 1 << 24, 1 << 31, (1 << 32) - 1, 1 << 32, (1 << 32) + 1, 1 << 56, 1 << 63, u64::MAX - 3, u64::MAX - 2, u64::MAX - 1, 0x0102_0304_0506_0708];
    for k in 0..64 {
        v.push(1u64 << k);
    }
    // a few fixed "random-looking" 64-bit values (all bytes distinct and non-zero)
    v.extend([0x9e37_79b9_7f4a_7c15u64, 0xd6e8_feb8_6659_fd93, 0x243f_6a88_85a3_08d3, 0xfedc_ba98_7654_3210]);
    v.sort_unstable();
    v.dedup();
    v
}

fn session_cfg(p: &Proto, b: Backend, eph_tag: u8) -> Config {
    let mut c = Config::honest(p, 0);
    c.backend = [b, b];
    c.crypto_oracle = false;
    c.eph = [Eph::Fixed(key_bytes(3 + eph_tag)), Eph::Fixed(key_bytes(4 + eph_tag))];
    c
}

/// transport messages of a parallel session (same static keys, other ephemerals): one per direction
fn rekey_all() -> Vec<Op> {
    vec![Op::RekeyOut { side: Side::I }, Op::RekeyIn { side: Side::I }, Op::RekeyOut { side: Side::R }, Op::RekeyIn { side: Side::R }]
}

/// (messages before any rekey, messages after both directions were rekeyed on both sides), one per direction, nonce 0 / 1
fn foreign_messages(p: &Proto, b: Backend, plen: usize) -> (Vec<Vec<u8>>, Vec<Vec<u8>>) {
    let cfg = session_cfg(p, b, 40);
    let mut ops = sess::handshake_ops(p, &[0, 0, 0, 0]);
    ops.extend(sess::convert_ops(Mode::TT));
    let oneway = p.pattern.is_oneway();
    let push_writes = |ops: &mut Vec<Op>| {
        ops.push(Op::TWrite { side: Side::I, plen, cap: Cap::Roomy });
        if !oneway {
            ops.push(Op::TWrite { side: Side::R, plen, cap: Cap::Roomy });
        }
    };
    push_writes(&mut ops);
    ops.extend(rekey_all());
    push_writes(&mut ops);
    let e = Exec::run(&cfg, &ops);
    let per = if oneway { 1 } else { 2 };
    let all: Vec<Vec<u8>> = {
        // in write order: I (, R), I (, R)
        let ti: Vec<Vec<u8>> = e.wires[0].iter().filter(|w| matches!(w.meta, crate::exec::WireMeta::T { .. })).map(|w| w.bytes.clone()).collect();
        let tr: Vec<Vec<u8>> = e.wires[1].iter().filter(|w| matches!(w.meta, crate::exec::WireMeta::T { .. })).map(|w| w.bytes.clone()).collect();
        let mut v = vec![];
        for k in 0..2 {
            if let Some(m) = ti.get(k) {
                v.push(m.clone());
            }
            if let Some(m) = tr.get(k) {
                v.push(m.clone());
            }
        }
        v
    };
    (all.iter().take(per).cloned().collect(), all.iter().skip(per).cloned().collect())
}

fn ops_for(p: &Proto, b: Backend, stateless: bool, plen: usize, bit_stride: usize) -> Vec<Op> {
    let oneway = p.pattern.is_oneway();
    let mode = if stateless { Mode::SS } else { Mode::TT };
    let mut ops = sess::handshake_ops(p, &[0, 0, 0, 0]);
    ops.extend(sess::convert_ops(mode));
    let (foreign, foreign_rekeyed) = foreign_messages(p, b, plen);
    for w in [Side::I, Side::R] {
        if oneway && w == Side::R {
            continue;
        }
        let r = w.peer();
        let wr = |n: u64| if stateless { Op::SWrite { side: w, nonce: n, plen, cap: Cap::Roomy } } else { Op::TWrite { side: w, plen, cap: Cap::Roomy } };
        let rd = |side: Side, n: u64, m: Msg| if stateless { Op::SRead { side, nonce: n, msg: m, cap: Cap::Roomy } } else { Op::TRead { side, msg: m, cap: Cap::Roomy } };
        ops.push(wr(0));
        let g = Msg::Last(w);
        let total = plen + 16;
        let alt = |a: Alter| Msg::Altered(Box::new(g.clone()), a);
        if total <= 400 {
            for bit in (0..total * 8).step_by(bit_stride) {
                ops.push(rd(r, 0, alt(Alter::FlipBit(bit))));
            }
            for t in 0..total {
                ops.push(rd(r, 0, alt(Alter::Trunc(t))));
            }
        } else {
            for bit in [0, 7, 8 * (total / 2), 8 * (total - 17), 8 * (total - 16), 8 * total - 1] {
                ops.push(rd(r, 0, alt(Alter::FlipBit(bit))));
            }
            for t in [0, 1, 15, 16, 17, total - 17, total - 16, total - 1] {
                ops.push(rd(r, 0, alt(Alter::Trunc(t))));
            }
        }
        for (n, f) in [(1usize, 0u8), (1, 0xff), (16, 0), (17, 1)] {
            if total + n <= 65535 {
                ops.push(rd(r, 0, alt(Alter::Extend(n, f))));
                // the same with a payload buffer that fits the genuine message exactly (and one that is short of the
                // extended message's by one byte): a reader that looks only at as much of the input as its buffer can
                // hold would accept the genuine prefix
                for fit in [plen, plen + n - 1] {
                    let m = alt(Alter::Extend(n, f));
                    ops.push(if stateless { Op::SRead { side: r, nonce: 0, msg: m, cap: Cap::Exact(fit) } } else { Op::TRead { side: r, msg: m, cap: Cap::Exact(fit) } });
                }
            }
        }
        ops.push(rd(r, 0, Msg::Garbage(total, 0)));
        ops.push(rd(r, 0, Msg::Garbage(total, 0xff)));
        // reflection: the writer is handed its own message (same nonce)
        if !oneway {
            ops.push(rd(w, 0, g.clone()));
        }
        // cross-session / cross-direction
        for f in &foreign {
            ops.push(rd(r, 0, Msg::Raw(f.clone())));
        }
        // the handshake's last message replayed as a transport message
        ops.push(rd(r, 0, Msg::Wire(sess::writer(p.n_msgs() - 1), (p.n_msgs() - 1) / 2)));
        // finally the genuine message itself is accepted
        ops.push(rd(r, 0, g.clone()));
        if !stateless {
            // and exactly once
            ops.push(rd(r, 0, g.clone()));
        }
    }
    // after a synchronised rekey of both directions on both sides the same must hold: the keys are still
    // session- and direction-specific
    ops.extend(rekey_all());
    for w in [Side::I, Side::R] {
        if oneway && w == Side::R {
            continue;
        }
        let r = w.peer();
        let n1 = 1u64; // second message of this direction
        ops.push(if stateless { Op::SWrite { side: w, nonce: n1, plen, cap: Cap::Roomy } } else { Op::TWrite { side: w, plen, cap: Cap::Roomy } });
        let rd = |side: Side, m: Msg| if stateless { Op::SRead { side, nonce: n1, msg: m, cap: Cap::Roomy } } else { Op::TRead { side, msg: m, cap: Cap::Roomy } };
        let g = Msg::Last(w);
        for f in &foreign_rekeyed {
            ops.push(rd(r, Msg::Raw(f.clone())));
        }
        ops.push(rd(r, Msg::Altered(Box::new(g.clone()), Alter::FlipLast)));
        if !oneway && !stateless {
            // reflection: the writer's own receiving nonce must be in step for this to be a fair test
            ops.push(Op::SetRecvNonce { side: w, n: n1 });
            ops.push(rd(w, g.clone()));
            ops.push(Op::SetRecvNonce { side: w, n: if w == Side::I { 0 } else { 1 } });
        } else if !oneway {
            ops.push(rd(w, g.clone()));
        }
        ops.push(rd(r, g.clone()));
    }
    // the last usable nonce: a message under 2^64-2 is accepted once and never again
    if !stateless {
        for w in [Side::I, Side::R] {
            if oneway && w == Side::R {
                continue;
            }
            let r = w.peer();
            ops.push(Op::SetSendNonce { side: w, n: u64::MAX - 1 });
            ops.push(Op::TWrite { side: w, plen, cap: Cap::Roomy });
            ops.push(Op::SetRecvNonce { side: r, n: u64::MAX - 1 });
            ops.push(Op::TRead { side: r, msg: Msg::Last(w), cap: Cap::Roomy });
            ops.push(Op::TRead { side: r, msg: Msg::Last(w), cap: Cap::Roomy });
        }
    }
    ops
}

fn nonce_pair_ops(p: &Proto, all_pairs: bool, stateful_reader: bool) -> Vec<Op> {
    let mut ops = sess::handshake_ops(p, &[0, 0, 0, 0]);
    // the reader is either stateless (nonce supplied per call) or stateful with set_receiving_nonce
    ops.extend(sess::convert_ops(if stateful_reader { Mode::ST } else { Mode::SS }));
    let ns = nonces();
    let base = ops.len();
    let _ = base;
    for (k, &a) in ns.iter().enumerate() {
        ops.push(Op::SWrite { side: Side::I, nonce: a, plen: 5, cap: Cap::Roomy });
        // hs wires precede: transport wire index of this message = (#hs wires of I) + k
        let idx = (p.n_msgs() + 1) / 2 + k;
        for &b in &ns {
            if b != a && (all_pairs || b == 0 || a == 0 || (a ^ b).count_ones() <= 2 || b == a.swap_bytes() || b == (a as u32) as u64 || b == a >> 32) {
                if stateful_reader {
                    ops.push(Op::SetRecvNonce { side: Side::R, n: b });
                    ops.push(Op::TRead { side: Side::R, msg: Msg::Wire(Side::I, idx), cap: Cap::Roomy });
                } else {
                    ops.push(Op::SRead { side: Side::R, nonce: b, msg: Msg::Wire(Side::I, idx), cap: Cap::Roomy });
                }
            }
        }
        if stateful_reader {
            ops.push(Op::SetRecvNonce { side: Side::R, n: a });
            ops.push(Op::TRead { side: Side::R, msg: Msg::Wire(Side::I, idx), cap: Cap::Roomy });
        } else {
            ops.push(Op::SRead { side: Side::R, nonce: a, msg: Msg::Wire(Side::I, idx), cap: Cap::Roomy });
        }
    }
    ops
}


/// Session- and direction-specific keys after unusual (but legitimate) API use: (V1) dangerously_get_raw_split
/// queried early - before the first message and after it - by both parties of both sessions; (V2) both parties
/// install two different manual keys with one rekey_manually(Some, Some) call. Then: the other session's message
/// (V1 only - under V2 both sessions hold the same manual keys by the caller's choice), each party's own message
/// reflected back at it, and the genuine messages.
fn odd_api_use(ctx: &Ctx) {
    let mut jobs = vec![];
    for (c, b) in cipher_backends() {
        for pat in ["NN", "XX", "IK", "NK", "N", "X"] {
            for stateless in [false, true] {
                for variant in [1u8, 2] {
                    jobs.push((c, b, pat, stateless, variant));
                }
            }
        }
    }
    jobs.par_iter().for_each(|(c, b, pat, stateless, variant)| {
        let p = proto(pat, &[], DhAlg::X25519, *c, HashAlg::Sha256);
        let oneway = p.pattern.is_oneway();
        let mode = if *stateless { Mode::SS } else { Mode::TT };
        let build = |eph: u8, deliveries: &dyn Fn(&mut Vec<Op>)| -> (Config, Vec<Op>) {
            let cfg = session_cfg(&p, *b, eph);
            let mut ops = vec![];
            if *variant == 1 {
                ops.push(Op::RawSplit { side: Side::I });
                ops.push(Op::RawSplit { side: Side::R });
            }
            let hs = sess::handshake_ops(&p, &[0, 0, 0, 0]);
            for (k, op) in hs.into_iter().enumerate() {
                ops.push(op);
                if *variant == 1 && k == 1 {
                    ops.push(Op::RawSplit { side: Side::I });
                    ops.push(Op::RawSplit { side: Side::R });
                }
            }
            ops.extend(sess::convert_ops(mode));
            if *variant == 2 {
                ops.push(Op::RekeyManual { side: Side::I, i: Some(1), r: Some(2) });
                ops.push(Op::RekeyManual { side: Side::R, i: Some(1), r: Some(2) });
            }
            ops.push(if *stateless { Op::SWrite { side: Side::I, nonce: 0, plen: 7, cap: Cap::Roomy } } else { Op::TWrite { side: Side::I, plen: 7, cap: Cap::Roomy } });
            if !oneway {
                ops.push(if *stateless { Op::SWrite { side: Side::R, nonce: 0, plen: 7, cap: Cap::Roomy } } else { Op::TWrite { side: Side::R, plen: 7, cap: Cap::Roomy } });
            }
            deliveries(&mut ops);
            (cfg, ops)
        };
        // the parallel session's transport messages
        let (fcfg, fops) = build(40, &|_| {});
        let fe = Exec::run(&fcfg, &fops);
        let foreign: Vec<Vec<u8>> = fe.wires.iter().flat_map(|w| w.iter().filter(|x| matches!(x.meta, crate::exec::WireMeta::T { .. })).map(|x| x.bytes.clone())).collect();
        let rd = |side: Side, m: Msg| if *stateless { Op::SRead { side, nonce: 0, msg: m, cap: Cap::Roomy } } else { Op::TRead { side, msg: m, cap: Cap::Roomy } };
        let (cfg, ops) = build(0, &|ops: &mut Vec<Op>| {
            if *variant == 1 {
                for f in &foreign {
                    ops.push(rd(Side::R, Msg::Raw(f.clone())));
                    if !oneway {
                        ops.push(rd(Side::I, Msg::Raw(f.clone())));
                    }
                }
            }
            if !oneway {
                // reflection (both receiving nonces are still 0, as are the messages' numbers)
                ops.push(rd(Side::I, Msg::Last(Side::I)));
                ops.push(rd(Side::R, Msg::Last(Side::R)));
                ops.push(rd(Side::I, Msg::Last(Side::R)));
            }
            ops.push(rd(Side::R, Msg::Last(Side::I)));
        });
        let e = Exec::run(&cfg, &ops);
        ctx.add(&ctx.evaluations, e.steps.len() as u64);
        ctx.add(&ctx.transitions, e.steps.len() as u64);
        ctx.add(&ctx.traces, 1);
        let rejected = e.steps.iter().filter(|s| matches!(s.op, Op::TRead { .. } | Op::SRead { .. }) && !s.real.is_ok()).count();
        ctx.add(&ctx.nontrivial, rejected as u64);
        ctx.count("deliveries_rejected", rejected as u64);
        ctx.count("deliveries_accepted", e.steps.iter().filter(|s| matches!(s.op, Op::TRead { .. } | Op::SRead { .. }) && s.real.is_ok()).count() as u64);
        for m in sess::filter(&e, &CATS) {
            ctx.violation(format!("{} ({})", sess::signature(&e, m), if *variant == 1 { "raw split queried early by both parties" } else { "after rekey_manually with two keys" }), format!("{} {:?}: {}", p.name, b, m.detail), sess::case_json(&cfg, &ops[..=m.step.min(ops.len() - 1)]));
        }
    });
    ctx.count("odd_api_use_sessions", jobs.len() as u64);
}


/// Messages sealed by someone who does NOT know the session keys, under keys anyone can guess (all zero, all 0xFF,
/// the session's handshake hash is not secret either): never accepted - at the start of the transport phase, and
/// after the receiver was parked on the reserved nonce, refused a message there and was pointed back (whatever an
/// implementation does to an exhausted cipherstate, it must not end up on a guessable key).
fn guessable_key_forgeries(ctx: &Ctx) {
    let mut jobs = vec![];
    for (c, b) in cipher_backends() {
        for pat in ["NN", "XX", "N"] {
            for excursion in [false, true] {
                jobs.push((c, b, pat, excursion));
            }
        }
    }
    jobs.par_iter().for_each(|(c, b, pat, excursion)| {
        let p = proto(pat, &[], DhAlg::X25519, *c, HashAlg::Sha256);
        let cfg = session_cfg(&p, *b, 0);
        let mut ops = sess::handshake_ops(&p, &[0, 0, 0, 0]);
        ops.extend(sess::convert_ops(Mode::TT));
        ops.push(Op::TWrite { side: Side::I, plen: 5, cap: Cap::Roomy });
        if *excursion {
            ops.push(Op::SetRecvNonce { side: Side::R, n: u64::MAX });
            ops.push(Op::TRead { side: Side::R, msg: Msg::Last(Side::I), cap: Cap::Roomy });
            ops.push(Op::SetRecvNonce { side: Side::R, n: 0 });
        }
        for key in [[0u8; 32], [0xffu8; 32], [0x01u8; 32]] {
            for n in [0u64, 1] {
                let forged = c.encrypt(&key, n, &[], b"forged");
                ops.push(Op::TRead { side: Side::R, msg: Msg::Raw(forged), cap: Cap::Roomy });
            }
        }
        // the genuine message is still there to be read
        ops.push(Op::TRead { side: Side::R, msg: Msg::Last(Side::I), cap: Cap::Roomy });
        let e = Exec::run(&cfg, &ops);
        ctx.add(&ctx.evaluations, e.steps.len() as u64);
        ctx.add(&ctx.transitions, e.steps.len() as u64);
        ctx.add(&ctx.traces, 1);
        let rejected = e.steps.iter().filter(|s| matches!(s.op, Op::TRead { .. }) && !s.real.is_ok()).count();
        ctx.add(&ctx.nontrivial, rejected as u64);
        ctx.count("deliveries_rejected", rejected as u64);
        ctx.count("deliveries_accepted", e.steps.iter().filter(|s| matches!(s.op, Op::TRead { .. }) && s.real.is_ok()).count() as u64);
        for m in sess::filter(&e, &CATS) {
            ctx.violation(format!("{} (message sealed under a guessable key{})", sess::signature(&e, m), if *excursion { ", after the receiver was parked on the reserved nonce and pointed back" } else { "" }), format!("{} {:?}: {}", p.name, b, m.detail), sess::case_json(&cfg, &ops[..=m.step.min(ops.len() - 1)]));
        }
    });
    ctx.count("guessable_key_sessions", jobs.len() as u64);
}

pub fn run(tier: Tier) -> i32 {
    let ctx = Ctx::new("C04", tier, "fault_enumeration");
    // the whole thorough alphabet costs a few seconds: both tiers run it
    let quick = false;
    // thorough: every psk-modifier subset of every pattern (556 names per cipher x backend) and more payload lengths
    // (the deeper alphabet costs well under a minute: the quick tier runs it too)
    let thorough = true;
    ctx.set_rule("case = one delivery to a transport-mode read: the peer's genuine message altered by every single-bit flip, every truncation length, extensions (roomy buffer, a buffer that fits the genuine message exactly, and one byte short of the extended one), all-zero / all-ones strings, reflection to its own sender, the corresponding message of a parallel session with the same static keys, a handshake message, and (stateless) the genuine message under every other nonce of a 80-value boundary alphabet; stateful and stateless, both directions, 38 patterns + psk variants x 3 ciphers x 2 backends, output buffers comfortably large and (un-modified patterns) exactly payload-sized / payload + 9; the cross-session / reflection deliveries again after dangerously_get_raw_split was queried early by both parties and after rekey_manually with two keys; oracle: Ok iff unaltered message of this session, direction, key and nonce. non-trivial = the delivery was rejected as required");
    // last element: output buffers of the reads - 0 comfortably large, 1 exactly the payload size, 2 payload size + 9
    let mut cases: Vec<(Proto, Backend, bool, usize, usize, u8)> = vec![];
    let base = patterns::base_patterns();
    for (c, b) in cipher_backends() {
        for (k, bp) in base.iter().enumerate() {
            let h = [HashAlg::Sha256, HashAlg::Blake2b, HashAlg::Sha512, HashAlg::Blake2s][k % 4];
            let mut protos = vec![Proto::new(bp, &[], DhAlg::X25519, c, h).unwrap(), Proto::new(bp, &[(k % (bp.msgs.len() + 1)) as u8], DhAlg::X25519, c, h).unwrap()];
            if !quick {
                protos.push(Proto::new(bp, &[], DhAlg::P256, c, h).unwrap());
                protos.push(Proto::new(bp, &[0, bp.msgs.len() as u8], DhAlg::X25519, c, HashAlg::Sha512).unwrap());
            }
            if thorough {
                // every psk-modifier subset of the pattern
                for q in patterns::all_protos_for_suite(DhAlg::X25519, c, h) {
                    if q.base == bp.name && !protos.iter().any(|x| x.name == q.name) {
                        protos.push(q);
                    }
                }
            }
            for (pi, p) in protos.into_iter().enumerate() {
                for stateless in [false, true] {
                    let plens: Vec<usize> = if thorough && pi == 0 { vec![0, 1, 15, 16, 17, 31, 32, 33, 64, 255, 256, 383] } else if quick { vec![0, 1, 17, 64] } else { vec![0, 1, 16, 17, 64, 255] };
                    for pl in plens {
                        cases.push((p.clone(), b, stateless, pl, 1, 0));
                        // backends branch on the size of the output buffer: the un-modified pattern again with tight buffers
                        if pi == 0 {
                            cases.push((p.clone(), b, stateless, pl, 1, 1));
                            cases.push((p.clone(), b, stateless, pl, 1, 2));
                        }
                    }
                }
            }
        }
        // one large message per cipher/backend
        let p = Proto::new(&base[8], &[], DhAlg::X25519, c, HashAlg::Sha256).unwrap();
        cases.push((p.clone(), b, false, 65519, 1, 0));
        cases.push((p, b, true, 65519, 1, 1));
    }
    cases.par_iter().for_each(|(p, b, stateless, pl, stride, rcap)| {
        let cfg = session_cfg(p, *b, 0);
        let mut ops = ops_for(p, *b, *stateless, *pl, *stride);
        if *rcap != 0 {
            let cap = if *rcap == 1 { Cap::NeedPlus(0) } else { Cap::NeedPlus(9) };
            for op in ops.iter_mut() {
                match op {
                    Op::TRead { cap: c, .. } | Op::SRead { cap: c, .. } if *c == Cap::Roomy => *c = cap.clone(),
                    _ => {},
                }
            }
        }
        let e = Exec::run(&cfg, &ops);
        ctx.add(&ctx.evaluations, e.steps.len() as u64);
        ctx.add(&ctx.transitions, e.steps.len() as u64);
        ctx.add(&ctx.traces, 1);
        let rejected = e.steps.iter().filter(|s| matches!(s.op, Op::TRead { .. } | Op::SRead { .. }) && !s.real.is_ok()).count();
        ctx.add(&ctx.nontrivial, rejected as u64);
        ctx.count("deliveries_rejected", rejected as u64);
        ctx.count("deliveries_accepted", e.steps.iter().filter(|s| matches!(s.op, Op::TRead { .. } | Op::SRead { .. }) && s.real.is_ok()).count() as u64);
        for m in sess::filter(&e, &CATS) {
            // keep the replay small: handshake + conversion + the write + the offending step
            ctx.violation(sess::signature(&e, m), format!("{} {:?}: {}", p.name, b, m.detail), sess::case_json(&cfg, &ops[..=m.step.min(ops.len() - 1)]));
        }
    });
    odd_api_use(&ctx);
    guessable_key_forgeries(&ctx);
    // stateless: genuine message under a different nonce
    let pair_cases: Vec<(Proto, Backend, bool)> = cipher_backends().into_iter().flat_map(|(c, b)| vec![(proto("NN", &[], DhAlg::X25519, c, HashAlg::Sha256), b, false), (proto("N", &[], DhAlg::X25519, c, HashAlg::Blake2s), b, false), (proto("NN", &[], DhAlg::X25519, c, HashAlg::Sha512), b, true)]).collect();
    pair_cases.par_iter().for_each(|(p, b, stateful_reader)| {
        let cfg = session_cfg(p, *b, 0);
        let ops = nonce_pair_ops(p, true, *stateful_reader);
        let e = Exec::run(&cfg, &ops);
        ctx.add(&ctx.evaluations, e.steps.len() as u64);
        ctx.add(&ctx.transitions, e.steps.len() as u64);
        ctx.add(&ctx.traces, 1);
        let rejected = e.steps.iter().filter(|s| matches!(s.op, Op::SRead { .. } | Op::TRead { .. }) && !s.real.is_ok()).count();
        ctx.add(&ctx.nontrivial, rejected as u64);
        ctx.count("nonce_pairs_rejected", rejected as u64);
        for m in sess::filter(&e, &CATS) {
            let mut small = ops[..2 * p.n_msgs() + 2].to_vec();
            if let (false, Some(Op::SRead { nonce, msg: Msg::Wire(_, idx), .. })) = (*stateful_reader, ops.get(m.step)) {
                // rebuild: the write of that wire and the offending read
                let k = idx - (p.n_msgs() + 1) / 2;
                let a = nonces()[k];
                small.push(Op::SWrite { side: Side::I, nonce: a, plen: 5, cap: Cap::Roomy });
                small.push(Op::SRead { side: Side::R, nonce: *nonce, msg: Msg::Last(Side::I), cap: Cap::Roomy });
            } else {
                small = ops[..=m.step.min(ops.len() - 1)].to_vec();
            }
            ctx.violation(sess::signature(&e, m), format!("{} {:?}: {}", p.name, b, m.detail), sess::case_json(&cfg, &small));
        }
    });
    ctx.states.store((cases.len() + pair_cases.len()) as u64, std::sync::atomic::Ordering::Relaxed);
    if ctx.counters.lock().unwrap().get("deliveries_accepted").copied().unwrap_or(0) == 0 {
        ctx.vacuous("no delivery was ever accepted: the rejections prove nothing");
    }
    // If snow's sources contain a synchronisation primitive (they do not on the pinned tree), a read's result
    // may depend on what other threads do with the same session: "returns exactly the written payload" is then
    // also checked under every interleaving at those primitives (the shuttle-mapped copy C16 uses).
    let (_, hits) = super::c16::scan_sync_primitives(&std::env::var("SNOW_REPO_SRC").unwrap_or_else(|_| "/repo/src".to_string()));
    ctx.set("repo_src_sync_primitive_mentions", json!(hits));
    if !hits.is_empty() {
        match super::c16::run_mapped_copy(if ctx.quick() { "quick" } else { "thorough" }) {
            Ok(v) => {
                let n = v["schedules"].as_u64().unwrap_or(0);
                ctx.add(&ctx.evaluations, n);
                ctx.add(&ctx.traces, n);
                ctx.count("schedules: concurrent reads on the shuttle-mapped copy of snow", n);
                for d in v["violations"].as_array().cloned().unwrap_or_default() {
                    let d = d.as_str().unwrap_or("").to_string();
                    if d.contains("Read") && (d.contains("returned Ok with other bytes") || d.contains("succeeded although")) {
                        ctx.violation("a transport read running concurrently with other calls on the same session returned Ok with something else than the written payload", d, json!({"kind": "mapped"}));
                    }
                }
            },
            Err(e) => ctx.note(format!("shuttle-mapped copy not explored: {e} (not a verdict)")),
        }
    }
    let (p0, b0, s0, pl0, st0, _) = &cases[0];
    let o0 = ops_for(p0, *b0, *s0, *pl0, *st0);
    ctx.sample(json!({"name": p0.name, "backend": b0, "ops_head": &o0[..8.min(o0.len())], "ops_total": o0.len()}));
    ctx.set("nonce_alphabet", json!(nonces().len()));
    ctx.assume("random multi-byte edits and random 64-bit nonces are replaced by exhaustive single-bit/truncation/extension alphabets and a boundary + single-bit nonce alphabet");
    *ctx.exhaustive.lock().unwrap() = Some(false);
    ctx.finish()
}

pub fn replay(case: &serde_json::Value) -> Result<(), String> {
    if case["kind"] == "mapped" {
        let v = super::c16::run_mapped_copy("quick")?;
        return match v["violations"].as_array().and_then(|a| a.iter().find(|d| d.as_str().map_or(false, |d| d.contains("Read") && (d.contains("returned Ok with other bytes") || d.contains("succeeded although"))))) {
            Some(d) => Err(d.as_str().unwrap_or("").to_string()),
            None => Ok(()),
        };
    }
    replay_cats(case, &CATS)
}
