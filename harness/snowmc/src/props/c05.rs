//! C05 Stateful transport delivers in order, exactly once; rejections change nothing (E2).
//! Model: the receiver's nonce counter and the provenance of each sender message; a delivery is
//! accepted iff it is the unaltered message whose number equals the receiving nonce.

use super::common::*;
use crate::{
    ctx::{Ctx, Tier},
    engine::seqmc::{self, SeqSpec},
    exec::{Alter, Cap, Cat, Config, Exec, Msg, Op, Side},
    sess::{self, Mode},
};
use rayon::prelude::*;
use refnoise::{DhAlg, HashAlg};
use std::sync::Arc;

const CATS: [Cat; 7] = [Cat::ExpectedOkGotErr, Cat::ExpectedErrGotOk, Cat::OutBytes, Cat::OutLen, Cat::GetterNonce, Cat::NoOp, Cat::Panic];
const K: usize = 4;

fn spec(cfg: Config, sender: Side, depth: usize, devs: usize) -> SeqSpec {
    let proto = cfg.proto();
    let mut prefix = sess::handshake_ops(&proto, &[0, 0, 0, 0]);
    // the (feature-gated) raw-split export is an observation of the finished handshake: the transport states made
    // afterwards are the same
    prefix.push(Op::RawSplit { side: Side::I });
    prefix.push(Op::RawSplit { side: Side::R });
    prefix.extend(sess::convert_ops(Mode::TT));
    let recv = sender.peer();
    let alphabet = Arc::new(move |e: &Exec| {
        let tw = transport_wires(e, sender);
        let d = usize::from(recv.is_init());
        let expected = e.abs[recv.idx()].n[d];
        let mut a: Vec<(Op, bool)> = vec![];
        if tw.len() < K {
            a.push((Op::TWrite { side: sender, plen: 3 + tw.len(), cap: Cap::Roomy }, false));
            // refused writes on the sender must not disturb the sending order either
            a.push((Op::TWrite { side: sender, plen: 65520, cap: Cap::Exact(70000) }, true));
            a.push((Op::TWrite { side: sender, plen: 9, cap: Cap::NeedPlus(-1) }, true));
        }
        for (j, &w) in tw.iter().enumerate() {
            // in-order delivery is the honest step; everything else (reorder, duplicate) a deviation
            a.push((Op::TRead { side: recv, msg: Msg::Wire(sender, w), cap: Cap::Roomy }, j as u64 != expected));
        }
        for (j, &w) in tw.iter().enumerate() {
            if j as u64 == expected || j + 1 == tw.len() {
                a.push((Op::TRead { side: recv, msg: Msg::Altered(Box::new(Msg::Wire(sender, w)), Alter::FlipBit(9)), cap: Cap::Roomy }, true));
                a.push((Op::TRead { side: recv, msg: Msg::Altered(Box::new(Msg::Wire(sender, w)), Alter::FlipLast), cap: Cap::Roomy }, true));
                a.push((Op::TRead { side: recv, msg: Msg::Wire(sender, w), cap: Cap::NeedPlus(-1) }, true));
                a.push((Op::TRead { side: recv, msg: Msg::Wire(sender, w), cap: Cap::Exact(0) }, true));
                a.push((Op::TRead { side: recv, msg: Msg::Altered(Box::new(Msg::Wire(sender, w)), Alter::TruncBy(1)), cap: Cap::Roomy }, true));
                a.push((Op::TRead { side: recv, msg: Msg::Altered(Box::new(Msg::Wire(sender, w)), Alter::Extend(1, 0)), cap: Cap::Roomy }, true));
            }
        }
        for len in [0usize, 15, 16, 17, 40] {
            a.push((Op::TRead { side: recv, msg: Msg::Garbage(len, 0x5a), cap: Cap::Roomy }, true));
        }
        a.push((Op::TRead { side: recv, msg: Msg::Garbage(65536, 1), cap: Cap::Roomy }, true));
        // the receiver's own traffic: it may write in between (its sending nonce then differs from its
        // receiving nonce), and its own message reflected back at it must be rejected
        let own = transport_wires(e, recv);
        if own.len() < 2 {
            a.push((Op::TWrite { side: recv, plen: 2, cap: Cap::Roomy }, false));
        }
        if let Some(&w) = own.last() {
            a.push((Op::TRead { side: recv, msg: Msg::Wire(recv, w), cap: Cap::Roomy }, true));
        }
        // a handshake message of this session delivered as a transport message
        a.push((Op::TRead { side: recv, msg: Msg::Wire(sender, 0), cap: Cap::Roomy }, true));
        for v in 0..=K as u64 {
            if v != expected {
                a.push((Op::SetRecvNonce { side: recv, n: v }, true));
            }
        }
        a.push((Op::SetRecvNonce { side: recv, n: u64::MAX }, true));
        // the RECEIVER's own sending direction may be anywhere - even exhausted - without touching what it accepts
        if e.abs[recv.idx()].n[usize::from(!recv.is_init())] < u64::MAX - 1 {
            a.push((Op::SetSendNonce { side: recv, n: u64::MAX }, true));
            a.push((Op::SetSendNonce { side: recv, n: u64::MAX - 1 }, true));
        }
        // the SENDER's receiving nonce is about the other direction: setting it must not disturb what it sends
        // (in a one-way pattern that direction does not even exist)
        let ds = usize::from(sender.is_init());
        for v in [0u64, 3] {
            if e.abs[sender.idx()].n[ds] != v {
                a.push((Op::SetRecvNonce { side: sender, n: v }, true));
            }
        }
        a
    });
    let goal = Arc::new(move |e: &Exec| e.abs[recv.idx()].n[usize::from(recv.is_init())] == K as u64 && !e.desync);
    SeqSpec { cfg, prefix, max_depth: depth, max_devs: devs, alphabet, judge: judge_cats(&CATS), goal }
}


/// Unmerged sweep (state merging cannot see state hidden inside a backend's cipher object): all K messages are
/// written, then delivered in order; before every genuine delivery two failing deliveries are made - every ordered
/// pair from a list of ~29 (altered / stale / future / garbage / oversize messages and undersized buffers, into
/// roomy, exactly payload-sized and in-between buffers) - and the genuine deliveries themselves use roomy,
/// exactly payload-sized or in-between buffers. Every genuine delivery must still be accepted.
fn after_rejection_sweep(ctx: &Ctx, cfg: &Config, sender: Side, label: &str) {
    let proto = cfg.proto();
    let recv = sender.peer();
    let hs_written = (0..proto.n_msgs()).filter(|k| sess::writer(*k) == sender).count();
    let mut pre = sess::handshake_ops(&proto, &[0, 0, 0, 0]);
    pre.extend(sess::convert_ops(Mode::TT));
    for j in 0..K {
        pre.push(Op::TWrite { side: sender, plen: [3usize, 0, 40, 17][j % 4], cap: Cap::Roomy });
    }
    let wire = |j: usize| Msg::Wire(sender, hs_written + j);
    let fails_for = |j: usize| -> Vec<Vec<Op>> {
        let mut v: Vec<Op> = vec![];
        let alt = |a: Alter| Msg::Altered(Box::new(wire(j)), a);
        for a in [Alter::FlipBit(9), Alter::FlipLast, Alter::TruncBy(1), Alter::Extend(1, 0)] {
            for cap in [Cap::Roomy, Cap::NeedPlus(0), Cap::NeedPlus(5)] {
                v.push(Op::TRead { side: recv, msg: alt(a.clone()), cap });
            }
        }
        v.push(Op::TRead { side: recv, msg: wire(j), cap: Cap::NeedPlus(-1) });
        v.push(Op::TRead { side: recv, msg: wire(j), cap: Cap::Exact(0) });
        for len in [0usize, 15, 16, 40] {
            v.push(Op::TRead { side: recv, msg: Msg::Garbage(len, 0x5a), cap: Cap::Roomy });
        }
        v.push(Op::TRead { side: recv, msg: Msg::Garbage(16, 0x33), cap: Cap::Exact(0) });
        v.push(Op::TRead { side: recv, msg: Msg::Garbage(65536, 1), cap: Cap::Roomy });
        if j > 0 {
            v.push(Op::TRead { side: recv, msg: wire(j - 1), cap: Cap::NeedPlus(0) });
        }
        if j + 1 < K {
            v.push(Op::TRead { side: recv, msg: wire(j + 1), cap: Cap::NeedPlus(0) });
        }
        let mut v: Vec<Vec<Op>> = v.into_iter().map(|o| vec![o]).collect();
        // excursions of the receiving nonce: moved away (to the reserved value, just below it, one ahead), a
        // delivery rejected there, and moved back to where it was - nothing may stick
        let back = Op::SetRecvNonce { side: recv, n: j as u64 };
        for away in [u64::MAX, u64::MAX - 1, j as u64 + 1] {
            v.push(vec![Op::SetRecvNonce { side: recv, n: away }, Op::TRead { side: recv, msg: wire(j), cap: Cap::Roomy }, back.clone()]);
            v.push(vec![Op::SetRecvNonce { side: recv, n: away }, Op::TRead { side: recv, msg: Msg::Garbage(24, 7), cap: Cap::Roomy }, back.clone()]);
        }
        v.push(vec![Op::SetRecvNonce { side: recv, n: u64::MAX }, back.clone()]);
        // the receiver's own sending direction exhausted (and a write refused there): irrelevant to what it accepts
        v.push(vec![Op::SetSendNonce { side: recv, n: u64::MAX }, Op::TWrite { side: recv, plen: 1, cap: Cap::Roomy }]);
        v
    };
    let n_f = fails_for(1).len();
    let policies: [[Cap; 2]; 3] = [[Cap::Roomy, Cap::Roomy], [Cap::NeedPlus(0), Cap::NeedPlus(0)], [Cap::NeedPlus(5), Cap::NeedPlus(0)]];
    let jobs: Vec<(usize, usize, usize)> = (0..n_f).flat_map(|a| (0..n_f).flat_map(move |b| (0..3).map(move |p| (a, b, p)))).collect();
    jobs.par_iter().for_each(|(a, b, pol)| {
        let mut ops = pre.clone();
        for j in 0..K {
            let f = fails_for(j);
            ops.extend(f[a % f.len()].iter().cloned());
            ops.extend(f[b % f.len()].iter().cloned());
            ops.push(Op::TRead { side: recv, msg: wire(j), cap: policies[*pol][j % 2].clone() });
        }
        let e = sess::run(cfg, &ops);
        ctx.add(&ctx.evaluations, 1);
        ctx.add(&ctx.transitions, e.steps.len() as u64);
        ctx.add(&ctx.traces, 1);
        ctx.add(&ctx.nontrivial, 1);
        for m in sess::filter(&e, &CATS) {
            ctx.violation(format!("{} (in-order deliveries each preceded by two rejected ones)", sess::signature(&e, m)), format!("{label}: {}", m.detail), sess::case_json(cfg, &ops[..=m.step.min(ops.len() - 1)]));
            break;
        }
    });
    ctx.count("after_rejection_sequences", jobs.len() as u64);
    // the largest messages are messages too: payloads at and just below the 65519-byte maximum, in order, with a
    // rejected delivery before each
    let sizes = [65519usize, 65504, 65518, 65503];
    let mut ops = sess::handshake_ops(&proto, &[0, 0, 0, 0]);
    ops.extend(sess::convert_ops(Mode::TT));
    for plen in sizes {
        ops.push(Op::TWrite { side: sender, plen, cap: Cap::Roomy });
    }
    for j in 0..sizes.len() {
        ops.push(Op::TRead { side: recv, msg: Msg::Altered(Box::new(wire(j)), Alter::FlipLast), cap: Cap::Roomy });
        ops.push(Op::TRead { side: recv, msg: wire(j), cap: if j % 2 == 0 { Cap::Roomy } else { Cap::NeedPlus(0) } });
    }
    let e = sess::run(cfg, &ops);
    ctx.add(&ctx.evaluations, 1);
    ctx.add(&ctx.transitions, e.steps.len() as u64);
    ctx.add(&ctx.traces, 1);
    if let Some(m) = sess::filter(&e, &CATS).first() {
        ctx.violation(format!("{} (messages of the maximum size delivered in order)", sess::signature(&e, m)), format!("{label}: {}", m.detail), sess::case_json(cfg, &ops[..=m.step.min(ops.len() - 1)]));
    }
}

fn configs() -> Vec<(Config, Side, String)> {
    let mut v = vec![];
    for (c, b) in cipher_backends() {
        for pat in ["NN", "N"] {
            for sender in [Side::I, Side::R] {
                if pat == "N" && sender == Side::R {
                    continue;
                }
                let p = proto(pat, &[], DhAlg::X25519, c, HashAlg::Sha256);
                let mut cfg = Config::honest(&p, 0);
                cfg.backend = [b, b];
                cfg.record = true;
                cfg.crypto_oracle = false;
                v.push((cfg, sender, format!("{} {:?} sender={:?}", p.name, b, sender)));
            }
        }
    }
    v
}

pub fn run(tier: Tier) -> i32 {
    let ctx = Ctx::new("C05", tier, "model_checking");
    let (depth, devs) = if ctx.quick() { (7, 4) } else { (9, 5) };
    ctx.set_rule(format!(
        "explicit-state BFS over receiver/sender call sequences (write, deliver any written message, flipped/truncated/extended/garbage/oversize deliveries, undersized buffers, set_receiving_nonce) up to depth {depth} with at most {devs} deviations from in-order delivery; each transition executes the calls on real snow TransportStates and on the nonce/provenance model; states merged on (model, nonces, cipher keys); plus, unmerged, ~1450 sequences per configuration in which every in-order delivery is preceded by an ordered pair of rejected deliveries and buffers are roomy / exactly payload-sized / in between"
    ));
    let cfgs = configs();
    cfgs.par_iter().for_each(|(cfg, sender, label)| {
        let s = spec(cfg.clone(), *sender, depth, devs);
        let r = seqmc::explore(s.clone());
        absorb(&ctx, &s, &r, label);
    });
    cfgs.iter().for_each(|(cfg, sender, label)| after_rejection_sweep(&ctx, cfg, *sender, label));
    // cross-check that merging hides nothing: every sequence up to depth 3 (4 thorough), unmerged
    let ud = if ctx.quick() { 3 } else { 4 };
    let (cfg0, sender0, _) = &cfgs[0];
    let s0 = spec(cfg0.clone(), *sender0, ud, ud);
    let merged = seqmc::explore(s0.clone());
    let (n, sigs) = seqmc::enumerate_unmerged(&s0, ud);
    ctx.count("unmerged_sequences_cross_check", n);
    let merged_sigs: std::collections::BTreeSet<String> = merged.verdicts.iter().map(|v| v.0.clone()).collect();
    if sigs != merged_sigs {
        crate::ctx::machinery(&format!("merged and unmerged exploration disagree: {merged_sigs:?} vs {sigs:?}"));
    }
    sample_ops(&ctx, cfg0, &{
        let mut o = s0.prefix.clone();
        o.push(Op::TWrite { side: *sender0, plen: 3, cap: Cap::Roomy });
        o.push(Op::TRead { side: sender0.peer(), msg: Msg::Garbage(16, 0x5a), cap: Cap::Roomy });
        o.push(Op::TRead { side: sender0.peer(), msg: Msg::Last(*sender0), cap: Cap::Roomy });
        o
    });
    ctx.set("depth_bound", serde_json::json!(depth));
    ctx.set("deviation_bound", serde_json::json!(devs));
    ctx.assume("bounded: K=4 sender messages, depth and deviation bounds as stated; payload bytes from a fixed pattern");
    ctx.assume("acceptance oracle is the abstract provenance model (crypto-free); byte-level conformance is C01's");
    *ctx.exhaustive.lock().unwrap() = Some(true);
    ctx.finish()
}

pub fn replay(case: &serde_json::Value) -> Result<(), String> {
    replay_cats(case, &CATS)
}
