//! C17 The reported remote static key is the peer's true, complete public key (E1).
//! Oracle: the model's "peer static known from message k" function (pattern text) and the
//! peer's public key computed by ring from its private key (32 bytes for 25519, 65 for P-256).

use crate::{
    ctx::{Ctx, Tier},
    exec::{key_bytes, Config, Exec, Op, SIDES},
    sess::{self, Mode},
};
use rayon::prelude::*;
use refnoise::{patterns, CipherAlg, DhAlg, HashAlg, Proto};
use serde::{Deserialize, Serialize};
use serde_json::json;

#[derive(Clone, Copy, PartialEq, Eq, Debug, Serialize, Deserialize)]
pub enum Extra {
    /// only what the pattern requires
    None,
    /// the peer's true key supplied although the pattern transmits it (or never needs it)
    TrueKey,
    /// an unrelated valid key supplied where the pattern does not pre-share one
    OtherKey,
    /// psks are supplied with set_psk only after the call that needs them has failed (MissingPsk): a failed
    /// read must not make a key visible, a failed write must not lose one
    LatePsk,
}

fn cfg_for(proto: &Proto, extra: Extra) -> Config {
    let mut c = Config::honest(proto, 0);
    c.crypto_oracle = false;
    for s in SIDES {
        let i = s.idx();
        if c.rs_pub[i].is_none() {
            let peer_sk = key_bytes(if s.is_init() { 2 } else { 1 });
            match extra {
                Extra::None | Extra::LatePsk => {},
                Extra::TrueKey => c.rs_pub[i] = proto.dh.pubkey(&peer_sk),
                Extra::OtherKey => c.rs_pub[i] = proto.dh.pubkey(&key_bytes(9)),
            }
        }
    }
    c
}

fn ops_for(proto: &Proto, mode: Mode, faults: bool) -> Vec<Op> {
    use crate::exec::{Alter, Cap, Msg};
    let ops = sess::full_session_ops(proto, &[1, 1, 1, 1], mode, &[crate::exec::Side::I, crate::exec::Side::R], &[2, 2]);
    if !faults {
        return ops;
    }
    let _ = proto;
    // failing calls around every honest read: the reported key must survive them
    let mut out = vec![];
    for op in ops {
        if let Op::HsRead { side, msg, .. } = &op {
            out.push(Op::HsRead { side: *side, msg: Msg::Altered(Box::new(msg.clone()), Alter::FlipLast), cap: Cap::Roomy });
            out.push(Op::HsRead { side: *side, msg: msg.clone(), cap: Cap::Exact(0) });
            out.push(op.clone());
            out.push(Op::HsRead { side: *side, msg: Msg::Garbage(120, 7), cap: Cap::Roomy });
            out.push(Op::HsWrite { side: side.peer(), plen: 1, cap: Cap::Roomy });
        } else {
            out.push(op);
        }
    }
    out
}

pub fn check(cfg: &Config, ops: &[Op]) -> (Vec<(String, String)>, u64, bool) {
    let mut e = Exec::new(cfg);
    let mut v = vec![];
    let mut points = 0u64;
    let mut seen_some = false;
    let cmp = |e: &Exec, when: &str, v: &mut Vec<(String, String)>, points: &mut u64, seen_some: &mut bool| {
        for s in SIDES {
            let g = e.getters(s);
            if g.phase == 3 {
                continue;
            }
            *points += 1;
            let want = &e.abs[s.idx()].rs;
            *seen_some |= g.rs.is_some();
            // a key supplied although the pattern does not pre-share it may be shown or withheld until the
            // pattern conveys the real one (the property only speaks of keys the pattern gives the party)
            let extra_supplied_not_yet_conveyed = {
                let pat = &e.proto.pattern;
                let supplied_extra = e.cfg.rs_pub[s.idx()].is_some() && !pat.role_needs_remote_static(s.is_init());
                let conveyed = pat.remote_static_msg(s.is_init()).map_or(false, |k| e.abs[s.idx()].pos > k);
                supplied_extra && !conveyed
            };
            if extra_supplied_not_yet_conveyed && g.rs.is_none() {
                continue;
            }
            if &g.rs != want {
                let phase = ["HandshakeState", "TransportState", "StatelessTransportState"][usize::from(g.phase)];
                let what = match (&g.rs, want) {
                    (Some(a), Some(b)) if a.len() != b.len() => format!("has {} bytes instead of {}", a.len(), b.len()),
                    (Some(_), Some(_)) => "is not the peer's key".to_string(),
                    (Some(_), None) => "is reported although the pattern has not conveyed it".to_string(),
                    (None, Some(_)) => "is absent although the pattern has conveyed it".to_string(),
                    _ => String::new(),
                };
                v.push((format!("{phase}::get_remote_static {what}"), format!("{} {s:?} {when}: got {:?} want {:?}", e.cfg.name, g.rs.as_ref().map(hex::encode), want.as_ref().map(hex::encode))));
            }
        }
    };
    if let Some(b) = &e.build_err {
        return (vec![("honest configuration failed to build".into(), b.clone())], 0, false);
    }
    cmp(&e, "before the first message", &mut v, &mut points, &mut seen_some);
    for (k, op) in ops.iter().enumerate() {
        // whatever is reported, a conversion must not change it ("identical before and after conversion") - this
        // also covers keys the pattern never conveys, where the model allows both showing and withholding
        let conv_side = match op {
            Op::ToTransport { side } | Op::ToStateless { side } | Op::TryIntoTransport { side } | Op::TryIntoStateless { side } => Some(*side),
            _ => None,
        };
        let before = conv_side.map(|s| e.getters(s));
        e.step(op);
        if let (Some(s), Some(b)) = (conv_side, before) {
            let a = e.getters(s);
            if b.phase == 0 && (a.phase == 1 || a.phase == 2) && a.rs != b.rs {
                let phase = ["HandshakeState", "TransportState", "StatelessTransportState"][usize::from(a.phase)];
                v.push((format!("{phase}::get_remote_static differs from what the HandshakeState reported just before the conversion"), format!("{} {s:?} step {k} {op:?}: before {:?} after {:?}", e.cfg.name, b.rs.as_ref().map(hex::encode), a.rs.as_ref().map(hex::encode))));
            }
        }
        if e.desync {
            // real and model disagree on success: not this property's business (C02/C07)
            break;
        }
        cmp(&e, &format!("after step {k} {op:?}"), &mut v, &mut points, &mut seen_some);
    }
    (v, points, seen_some)
}

pub fn run(tier: Tier) -> i32 {
    let ctx = Ctx::new("C17", tier, "model_checking");
    ctx.set_rule("case = (handshake name incl. every psk set, DH in {25519, P256}, role, remote key supplied {as required, true key although transmitted, unrelated key where none is pre-shared}, ephemerals {fixed at build time, drawn from the scripted RNG when first written - so a party that never sends `e` holds none}, transport mode); get_remote_static compared with the model at every point: before the first message, after every call on both sides, after conversion to either transport mode and after transport traffic, also with failing reads/writes interposed around every read; non-trivial = a key was reported at some point");
    let mut cases: Vec<(Proto, Extra, Mode, bool, bool)> = vec![];
    // all four suites cost ~5 s: both tiers run them
    let suites: Vec<(DhAlg, CipherAlg, HashAlg)> = if false && ctx.quick() {
        vec![(DhAlg::X25519, CipherAlg::ChaChaPoly, HashAlg::Blake2s), (DhAlg::P256, CipherAlg::AesGcm, HashAlg::Sha256)]
    } else {
        vec![(DhAlg::X25519, CipherAlg::ChaChaPoly, HashAlg::Blake2s), (DhAlg::P256, CipherAlg::AesGcm, HashAlg::Sha256), (DhAlg::P256, CipherAlg::XChaChaPoly, HashAlg::Sha512), (DhAlg::X25519, CipherAlg::AesGcm, HashAlg::Blake2b)]
    };
    for (d, c, h) in suites {
        for p in patterns::all_protos_for_suite(d, c, h) {
            for x in [Extra::None, Extra::TrueKey, Extra::OtherKey] {
                for m in [Mode::TS, Mode::ST] {
                    cases.push((p.clone(), x, m, false, false));
                    // the same without fixed_ephemeral_key_for_testing_only: ephemerals are drawn from the scripted RNG
                    // by the write that needs them, so a party that never sends `e` (one-way responder) holds none
                    cases.push((p.clone(), x, m, false, true));
                }
                cases.push((p.clone(), x, Mode::TT, true, false));
                cases.push((p.clone(), x, Mode::TT, true, true));
                if !p.psks.is_empty() && x == Extra::None {
                    // every psk withheld from one side until the message that needs it has failed once
                    cases.push((p.clone(), Extra::LatePsk, Mode::TS, false, false));
                }
            }
        }
    }
    cases.par_iter().for_each(|(p, x, m, f, scripted)| {
        let mut cfg = cfg_for(p, *x);
        if *scripted {
            cfg.eph = [crate::exec::Eph::Scripted(0x17_0001), crate::exec::Eph::Scripted(0x17_0002)];
        }
        let mut ops = ops_for(p, *m, *f);
        if *x == Extra::LatePsk {
            for s in SIDES {
                for q in &p.psks {
                    cfg.psks[s.idx()][usize::from(*q)] = None;
                }
            }
            let mut out = vec![];
            for op in ops {
                match &op {
                    Op::HsWrite { side, .. } | Op::HsRead { side, .. } => {
                        // first attempt fails with MissingPsk when this message needs a psk; then supply all of
                        // this side's psks and repeat (the repeat is the genuine step)
                        out.push(op.clone());
                        for q in &p.psks {
                            out.push(Op::SetPsk { side: *side, loc: usize::from(*q), klen: 32 });
                        }
                        out.push(op.clone());
                    },
                    _ => out.push(op),
                }
            }
            ops = out;
        }
        let (v, points, some) = check(&cfg, &ops);
        ctx.add(&ctx.evaluations, 1);
        ctx.add(&ctx.transitions, points);
        ctx.add(&ctx.traces, 1);
        if some {
            ctx.add(&ctx.nontrivial, 1);
        }
        for (sig, d) in v {
            // a builder that refuses a remote key the pattern does not pre-share asks for nothing the property
            // forbids: only the plain configurations must build
            if sig == "honest configuration failed to build" && matches!(x, Extra::TrueKey | Extra::OtherKey) {
                ctx.count("surplus remote key refused at build time (not judged)", 1);
                continue;
            }
            ctx.violation(sig, d, sess::case_json(&cfg, &ops));
        }
    });
    ctx.states.store(cases.len() as u64, std::sync::atomic::Ordering::Relaxed);
    let (p0, x0, m0, f0, _) = &cases[101];
    ctx.sample(json!({"name": p0.name, "extra": x0, "mode": m0, "ops": ops_for(p0, *m0, *f0)}));
    ctx.assume("when a key was supplied although the pattern transmits it, the getter shows the supplied key until the transmitted one has been read; only the true key afterwards");
    ctx.assume("the peer's true public key is computed by ring (X25519 / ECDH_P256) from its private key");
    *ctx.exhaustive.lock().unwrap() = Some(true);
    ctx.finish()
}

pub fn replay(case: &serde_json::Value) -> Result<(), String> {
    let (cfg, ops) = sess::case_from_json(case).ok_or("bad case")?;
    match check(&cfg, &ops).0.first() {
        Some((s, d)) => Err(format!("{s}: {d}")),
        None => Ok(()),
    }
}
