//! C03 Handshake transcript integrity: any alteration in transit is detected (E1, fault
//! enumeration along the honest run, deviation bound 1 then 2).

use crate::{
    ctx::{Ctx, Tier},
    exec::{key_bytes, Alter, Cap, Config, Eph, Exec, Msg, Op, Real, Side, SIDES},
    sess,
};
use rayon::prelude::*;
use refnoise::{patterns, state::field_map, CipherAlg, DhAlg, HashAlg, Proto};
use serde::{Deserialize, Serialize};
use serde_json::json;

const PLENS: [usize; 4] = [3, 0, 7, 2];
const EMPTY: [usize; 4] = [0, 0, 0, 0];
fn plens_of(variant: u8) -> &'static [usize; 4] {
    if variant & 4 != 0 {
        &EMPTY
    } else {
        &PLENS
    }
}

#[derive(Clone, Debug, Serialize, Deserialize)]
pub struct Case {
    pub name: String,
    /// (message index, alteration of the genuine message) - one or two of them
    pub alts: Vec<(usize, Msg)>,
    /// 0 = default backend, comfortably large buffers; 1 = ring-preferring backend, payload buffers of exactly the
    /// payload size (the backends branch on the output size); 2 = ring-preferring backend, large buffers;
    /// +8 = an extended message is read into a buffer that fits the genuine payload exactly
    #[serde(default)]
    pub variant: u8,
}

fn base_cfg(p: &Proto, eph: u8) -> Config {
    let mut c = Config::honest(p, 0);
    c.crypto_oracle = false;
    c.eph = [Eph::Fixed(key_bytes(3 + eph)), Eph::Fixed(key_bytes(4 + eph))];
    c
}

/// messages of a parallel session (same statics and psks, different ephemerals)
fn parallel_messages(p: &Proto) -> Vec<Vec<u8>> {
    parallel_messages_with(p, &PLENS)
}
fn parallel_messages_with(p: &Proto, plens: &[usize; 4]) -> Vec<Vec<u8>> {
    let e = Exec::run(&base_cfg(p, 60), &sess::handshake_ops(p, plens));
    let mut v = vec![];
    for k in 0..p.n_msgs() {
        let w = sess::writer(k);
        if let Some(m) = e.wires[w.idx()].get(k / 2) {
            v.push(m.bytes.clone());
        }
    }
    v
}

/// Run the session delivering the altered messages in place of the genuine ones.
/// Returns violations (signature, detail) and whether the alteration was actually delivered and differed.
pub fn run_case(c: &Case) -> (Vec<(String, String)>, bool) {
    let p = Proto::parse(&c.name).expect("name");
    let mut cfg = base_cfg(&p, 0);
    let plens = plens_of(c.variant);
    if c.variant & 3 != 0 {
        cfg.backend = [crate::seam::Backend::Ring, crate::seam::Backend::Ring];
    }
    let rcap = if c.variant & 3 == 1 { Cap::NeedPlus(0) } else { Cap::Roomy };
    let mut e = Exec::new(&cfg);
    if e.build_err.is_some() {
        return (vec![], false);
    }
    let mut v = vec![];
    let mut any_err = false;
    let mut delivered_altered = false;
    for k in 0..p.n_msgs() {
        let w = sess::writer(k);
        let r = w.peer();
        e.step(&Op::HsWrite { side: w, plen: plens[k], cap: Cap::Roomy });
        let wrote = e.steps.last().unwrap().real.is_ok();
        any_err |= !wrote;
        let alts: Vec<Msg> = c.alts.iter().filter(|(i, _)| *i == k).map(|(_, m)| m.clone()).collect();
        if !wrote {
            // the writer could not write (it rejected something earlier): nothing to deliver
            continue;
        }
        if alts.is_empty() {
            e.step(&Op::HsRead { side: r, msg: Msg::Last(w), cap: rcap.clone() });
            any_err |= !e.steps.last().unwrap().real.is_ok();
            continue;
        }
        // deliver the altered copies one after the other until one is accepted
        let (genuine, _) = e.resolve_msg(&Msg::Last(w));
        let fields = field_map(&p, k, plens[k]);
        let tail_encrypted = fields.last().map_or(false, |f| f.encrypted);
        for (attempt, m) in alts.iter().enumerate() {
            let (altered, _) = e.resolve_msg(m);
            if altered == genuine {
                // the alteration is the identity on this message: nothing to judge
                e.step(&Op::HsRead { side: r, msg: Msg::Last(w), cap: rcap.clone() });
                any_err |= !e.steps.last().unwrap().real.is_ok();
                break;
            }
            if k == 0 && matches!(m, Msg::Raw(_)) && p.pattern.is_oneway() {
                // one-way pattern, first message of another honest session: a valid message, and the
                // initiator is finished after its only write whatever the responder receives - not judged
                e.step(&Op::HsRead { side: r, msg: m.clone(), cap: rcap.clone() });
                break;
            }
            delivered_altered = true;
            // A complete first message of a parallel session is a *valid* first message (Noise has no
            // replay protection for it): the receiving read cannot tell, so clause (b) does not apply;
            // clause (a) still does for interactive patterns (the original initiator rejects the reply).
            let replayed_first = k == 0 && matches!(m, Msg::Raw(_));
            let touches_encrypted = !replayed_first
                && ((altered.len() != genuine.len() && tail_encrypted)
                    || fields.iter().any(|f| f.encrypted && (f.start..f.start + f.len).any(|i| i < genuine.len() && altered.get(i) != genuine.get(i))));
            let cap = if c.variant & 8 != 0 && matches!(m, Msg::Altered(_, Alter::Extend(..))) { Cap::Exact(plens[k]) } else { rcap.clone() };
            e.step(&Op::HsRead { side: r, msg: m.clone(), cap });
            let res = e.steps.last().unwrap().real.clone();
            match &res {
                Real::Ok(n, _) => {
                    if touches_encrypted {
                        let which = fields.iter().filter(|f| f.encrypted).map(|f| format!("{:?}", f.kind)).collect::<Vec<_>>().join("/");
                        v.push((
                            format!("read accepted a message altered in an encrypted field ({}{})", alt_kind(m), if attempt > 0 { ", after an earlier altered copy was rejected" } else { "" }),
                            format!("{}: message {k} (encrypted fields: {which}) -> Ok({n})", c.name),
                        ));
                    }
                    break;
                },
                _ => any_err = true,
            }
        }
    }
    let both_finished = SIDES.iter().all(|s| e.getters(*s).finished);
    if delivered_altered && both_finished && !any_err {
        v.push((
            format!("both parties finished the handshake without any error although a message was altered in transit ({})", c.alts.iter().map(|(_, m)| alt_kind(m)).collect::<Vec<_>>().join(" + ")),
            format!("{}: alterations {:?}", c.name, c.alts.iter().map(|(k, _)| *k).collect::<Vec<_>>()),
        ));
    }
    (v, delivered_altered)
}

fn alt_kind(m: &Msg) -> &'static str {
    match m {
        Msg::Altered(_, Alter::FlipBit(_)) | Msg::Altered(_, Alter::FlipLast) => "bit flip",
        Msg::Altered(_, Alter::Trunc(_)) | Msg::Altered(_, Alter::TruncBy(_)) => "truncation",
        Msg::Altered(_, Alter::Extend(..)) => "extension",
        Msg::Altered(_, Alter::NegateY(_)) => "a public key replaced by an equivalent one",
        Msg::Raw(_) => "substitution by a parallel session's message",
        Msg::Wire(..) => "substitution by another message of this session",
        Msg::Garbage(..) => "substitution by a constant string",
        _ => "alteration",
    }
}

fn alterations(p: &Proto, k: usize, bit_granular: bool, par: &[Vec<u8>]) -> Vec<Msg> {
    alterations_with(p, k, bit_granular, par, &PLENS)
}
fn alterations_with(p: &Proto, k: usize, bit_granular: bool, par: &[Vec<u8>], plens: &[usize; 4]) -> Vec<Msg> {
    let w = sess::writer(k);
    let g = Msg::Last(w);
    let len: usize = field_map(p, k, plens[k]).iter().map(|f| f.len).sum();
    let a = |x: Alter| Msg::Altered(Box::new(g.clone()), x);
    let mut v = vec![];
    if bit_granular {
        for b in 0..len * 8 {
            v.push(a(Alter::FlipBit(b)));
        }
    } else {
        // one bit per byte, walking through the bit positions, plus the top bit of every key-sized block
        for i in 0..len {
            v.push(a(Alter::FlipBit(i * 8 + i % 8)));
        }
        for i in (31..len).step_by(32) {
            v.push(a(Alter::FlipBit(i * 8 + 7)));
        }
    }
    for t in 0..len {
        v.push(a(Alter::Trunc(t)));
    }
    v.push(a(Alter::Extend(1, 0)));
    v.push(a(Alter::Extend(16, 0xaa)));
    // multi-byte edits: two and three bits in different fields / bytes at once
    let fm = field_map(p, k, plens[k]);
    let marks: Vec<usize> = fm.iter().flat_map(|f| [f.start, f.start + f.len.saturating_sub(1)]).filter(|x| *x < len).collect();
    for (i, m1) in marks.iter().enumerate() {
        for m2 in marks.iter().skip(i + 1) {
            let two = Msg::Altered(Box::new(a(Alter::FlipBit(m1 * 8 + 1))), Alter::FlipBit(m2 * 8 + 6));
            v.push(two.clone());
            v.push(Msg::Altered(Box::new(two), Alter::FlipBit((m1 + m2) / 2 * 8 + 3)));
        }
    }
    // alterations with structure: a public key sent in the clear replaced by another key with the same DH output
    // (P-256: the negated point; for 25519 the non-canonical twin - bit 255 set - is among the bit flips above)
    if p.dh == refnoise::DhAlg::P256 {
        for f in fm.iter().filter(|f| !f.encrypted && f.len == 65) {
            v.push(a(Alter::NegateY(f.start)));
        }
    }
    // substitutions: every message of the parallel session, earlier messages of this session, constants
    for (j, m) in par.iter().enumerate() {
        // one-way patterns: the initiator is finished after its only write whatever the responder
        // receives, and another session's message is a valid message - the property cannot speak of it
        if k == 0 && j == 0 && p.pattern.is_oneway() {
            continue;
        }
        v.push(Msg::Raw(m.clone()));
    }
    for j in 0..k {
        v.push(Msg::Wire(sess::writer(j), j / 2));
    }
    v.push(Msg::Garbage(len, 0));
    v
}

pub fn run(tier: Tier) -> i32 {
    let ctx = Ctx::new("C03", tier, "fault_enumeration");
    let quick = ctx.quick();
    ctx.set_rule("case = (handshake name, message index, alteration of that message: single-bit flips (every bit on the base patterns of 2 suites, one bit per byte + key top bits elsewhere), every truncation length, extension by 1 and 16 (also read into a buffer that fits the genuine payload exactly, both backends), replacement by each message of a parallel session / earlier message of this session / zeros); the altered message is delivered instead of the genuine one and the session continues honestly; default backend with large buffers, and (base patterns) the ring-preferring backend with exactly payload-sized and with large payload buffers; payloads of 3/0/7/2 bytes, and (base patterns, every cipher) all payloads empty. Oracle: (a) never both finished without an error; (b) if the altered bytes intersect a field the reference field map marks encrypted, or the length of an encrypted tail changed, the receiving read itself must return Err. Bound 2: two altered messages, or two altered copies of the same message (the second after the first was rejected). non-trivial = the delivered bytes differed from the genuine message");
    let mut jobs: Vec<(Proto, bool)> = vec![];
    for p in patterns::all_protos_for_suite(DhAlg::X25519, CipherAlg::ChaChaPoly, HashAlg::Blake2s) {
        jobs.push((p, false));
    }
    let granular: Vec<(DhAlg, CipherAlg, HashAlg)> = if quick { vec![(DhAlg::X25519, CipherAlg::ChaChaPoly, HashAlg::Sha256), (DhAlg::P256, CipherAlg::AesGcm, HashAlg::Blake2b)] } else { vec![(DhAlg::X25519, CipherAlg::ChaChaPoly, HashAlg::Sha256), (DhAlg::P256, CipherAlg::AesGcm, HashAlg::Blake2b), (DhAlg::X25519, CipherAlg::XChaChaPoly, HashAlg::Sha512), (DhAlg::X25519, CipherAlg::AesGcm, HashAlg::Sha256)] };
    for (d, c, h) in granular {
        for b in patterns::base_patterns() {
            jobs.push((Proto::new(&b, &[], d, c, h).unwrap(), true));
        }
    }
    if !quick {
        for p in patterns::all_protos_for_suite(DhAlg::X25519, CipherAlg::AesGcm, HashAlg::Sha512) {
            jobs.push((p, true));
        }
    }
    let cases: Vec<Case> = jobs
        .par_iter()
        .flat_map(|(p, gran)| {
            let par = parallel_messages(p);
            let mut v = vec![];
            for k in 0..p.n_msgs() {
                for m in alterations(p, k, *gran, &par) {
                    if matches!(m, Msg::Altered(_, Alter::Extend(..))) {
                        // the extended message read into a payload buffer that fits the genuine payload exactly
                        // (default and ring-preferring backend): a reader that only looks at as much of the input as
                        // its buffer can hold would accept the genuine prefix
                        v.push(Case { name: p.name.clone(), alts: vec![(k, m.clone())], variant: 8 });
                        v.push(Case { name: p.name.clone(), alts: vec![(k, m.clone())], variant: 8 + 2 });
                    }
                    v.push(Case { name: p.name.clone(), alts: vec![(k, m)], variant: 0 });
                }
            }
            v
        })
        .collect();
    // the same alphabet on the ring-preferring backend, with exactly sized and with large payload buffers
    let mut cases = cases;
    let ring_cases: Vec<Case> = patterns::base_patterns()
        .par_iter()
        .enumerate()
        .flat_map(|(i, b)| {
            let p = Proto::new(b, &[], DhAlg::X25519, if i % 2 == 0 { CipherAlg::AesGcm } else { CipherAlg::ChaChaPoly }, HashAlg::Sha256).unwrap();
            let par = parallel_messages(&p);
            let mut v = vec![];
            for k in 0..p.n_msgs() {
                for m in alterations(&p, k, false, &par) {
                    v.push(Case { name: p.name.clone(), alts: vec![(k, m.clone())], variant: 1 });
                    v.push(Case { name: p.name.clone(), alts: vec![(k, m)], variant: 2 });
                }
            }
            v
        })
        .collect();
    ctx.count("ring_backend_cases", ring_cases.len() as u64);
    cases.extend(ring_cases);
    // every handshake payload empty: each encrypted payload is a bare 16-byte tag ("nothing to decrypt" must not
    // become "nothing to verify"); base patterns, every cipher, default and ring-preferring backend
    let empty_cases: Vec<Case> = patterns::base_patterns()
        .par_iter()
        .enumerate()
        .flat_map(|(i, b)| {
            let mut v = vec![];
            for (ci, c) in [CipherAlg::ChaChaPoly, CipherAlg::AesGcm, CipherAlg::XChaChaPoly].into_iter().enumerate() {
                if quick && (i + ci) % 3 != 0 {
                    continue;
                }
                let p = Proto::new(b, &[], DhAlg::X25519, c, HashAlg::Blake2s).unwrap();
                let par = parallel_messages_with(&p, &EMPTY);
                for k in 0..p.n_msgs() {
                    for m in alterations_with(&p, k, false, &par, &EMPTY) {
                        v.push(Case { name: p.name.clone(), alts: vec![(k, m.clone())], variant: 4 });
                        if c != CipherAlg::XChaChaPoly {
                            v.push(Case { name: p.name.clone(), alts: vec![(k, m)], variant: 4 + 2 });
                        }
                    }
                }
            }
            v
        })
        .collect();
    ctx.count("all_empty_payload_cases", empty_cases.len() as u64);
    cases.extend(empty_cases);
    ctx.count("bound1_cases", cases.len() as u64);
    let eval = |c: &Case| {
        let (v, nontrivial) = run_case(c);
        ctx.add(&ctx.evaluations, 1);
        ctx.add(&ctx.transitions, 2 * Proto::parse(&c.name).map_or(2, |p| p.n_msgs()) as u64);
        ctx.add(&ctx.traces, 1);
        if nontrivial {
            ctx.add(&ctx.nontrivial, 1);
        }
        for (sig, d) in v {
            ctx.violation(sig, d, json!({"kind": "c03", "case": c}));
        }
    };
    cases.par_iter().for_each(eval);
    // bound 2: two altered messages (a clear-field flip followed by each alteration class of a later message)
    let mut b2: Vec<Case> = vec![];
    let b2_protos: Vec<Proto> = patterns::base_patterns().iter().map(|b| Proto::new(b, &[], DhAlg::X25519, CipherAlg::ChaChaPoly, HashAlg::Sha256).unwrap()).collect();
    for p in &b2_protos {
        let par = parallel_messages(p);
        for k1 in 0..p.n_msgs() {
            let firsts = [Msg::Altered(Box::new(Msg::Last(sess::writer(k1))), Alter::FlipBit(7 + 8 * 31)), Msg::Altered(Box::new(Msg::Last(sess::writer(k1))), Alter::FlipBit(3))];
            for k2 in (k1 + 1)..p.n_msgs() {
                let seconds = alterations(p, k2, false, &par);
                let step = if quick { 7 } else { 1 };
                for f in &firsts {
                    for s in seconds.iter().step_by(step) {
                        b2.push(Case { name: p.name.clone(), alts: vec![(k1, f.clone()), (k2, s.clone())], variant: 0 });
                    }
                }
            }
        }
    }
    // the same message delivered altered twice: a rejected copy must not make the next copy acceptable
    for p in &b2_protos {
        let par = parallel_messages(p);
        for k in 0..p.n_msgs() {
            let g = Msg::Last(sess::writer(k));
            let len: usize = field_map(p, k, PLENS[k]).iter().map(|f| f.len).sum();
            let firsts = [Msg::Altered(Box::new(g.clone()), Alter::FlipLast), Msg::Altered(Box::new(g.clone()), Alter::Trunc(len - 1)), Msg::Altered(Box::new(g.clone()), Alter::FlipBit(8 * (len / 2)))];
            let seconds = alterations(p, k, false, &par);
            let step = if quick { 3 } else { 1 };
            for f in &firsts {
                for s2 in seconds.iter().step_by(step) {
                    b2.push(Case { name: p.name.clone(), alts: vec![(k, f.clone()), (k, s2.clone())], variant: (k % 3) as u8 });
                }
            }
        }
    }
    ctx.count("bound2_cases", b2.len() as u64);
    b2.par_iter().for_each(eval);
    ctx.states.store((cases.len() + b2.len()) as u64, std::sync::atomic::Ordering::Relaxed);
    ctx.sample(json!(cases[5]));
    ctx.sample(json!(cases[cases.len() / 2]));
    if let Some(c) = b2.first() {
        ctx.sample(json!(c));
    }
    ctx.assume("alterations confined to clear fields (an `e`, a clear payload) only fall under (a); X25519's ignored top bit is therefore no false alarm - the transcript hash still differs");
    ctx.assume("random multi-byte edits are replaced by the exhaustive single-bit / truncation / substitution alphabets");
    *ctx.exhaustive.lock().unwrap() = Some(false);
    ctx.finish()
}

pub fn replay(case: &serde_json::Value) -> Result<(), String> {
    let c: Case = serde_json::from_value(case["case"].clone()).map_err(|e| e.to_string())?;
    match run_case(&c).0.first() {
        Some((s, d)) => Err(format!("{s}: {d}")),
        None => Ok(()),
    }
}

#[allow(dead_code)]
fn _u(_: Side) {}
