//! C18 Built-in primitives match their standards (E1 over the resolver objects directly).
//! Oracle: refnoise's primitives (ring, hmac/hkdf crates, hand-written HChaCha20), themselves
//! checked against the standards' known-answer vectors at the start of the run.

use crate::{
    ctx::{Ctx, Tier},
    seam::{scripted_bytes, Log, RngMode, SeamResolver, Backend},
};
use rayon::prelude::*;
use refnoise::{prims::ALL_HASHES, CipherAlg, DhAlg, HashAlg};
use serde_json::json;
use snow::{
    params::{CipherChoice, DHChoice, HashChoice},
    resolvers::{CryptoResolver, DefaultResolver, RingResolver},
    types::Cipher,
};
use std::panic::{catch_unwind, AssertUnwindSafe};

fn resolver(ring: bool) -> Box<dyn CryptoResolver> {
    if ring {
        Box::new(RingResolver)
    } else {
        Box::new(DefaultResolver)
    }
}
fn hash_choice(h: HashAlg) -> HashChoice {
    match h {
        HashAlg::Sha256 => HashChoice::SHA256,
        HashAlg::Sha512 => HashChoice::SHA512,
        HashAlg::Blake2s => HashChoice::Blake2s,
        HashAlg::Blake2b => HashChoice::Blake2b,
    }
}
fn cipher_choice(c: CipherAlg) -> CipherChoice {
    match c {
        CipherAlg::ChaChaPoly => CipherChoice::ChaChaPoly,
        CipherAlg::AesGcm => CipherChoice::AESGCM,
        CipherAlg::XChaChaPoly => CipherChoice::XChaChaPoly,
    }
}
fn pat(len: usize, tag: u8) -> Vec<u8> {
    (0..len).map(|i| (i as u8).wrapping_mul(7).wrapping_add(tag)).collect()
}
fn bk(ring: bool) -> &'static str {
    if ring {
        "ring"
    } else {
        "default"
    }
}

// ---- hashes / HMAC / HKDF --------------------------------------------------------------------
fn hash_part(ctx: &Ctx, thorough: bool) {
    let jobs: Vec<(HashAlg, bool)> = ALL_HASHES.iter().flat_map(|h| [(*h, false), (*h, true)]).collect();
    jobs.par_iter().for_each(|(h, ring)| {
        let Some(mut obj) = resolver(*ring).resolve_hash(&hash_choice(*h)) else { return };
        let who = format!("{} {}", bk(*ring), h.name());
        let (bl, hl) = (h.blocklen(), h.hashlen());
        if obj.block_len() != bl || obj.hash_len() != hl || obj.name() != h.name() {
            ctx.violation("hash object reports wrong name/block_len/hash_len", who.clone(), json!({"kind": "hash-meta", "hash": h.name(), "ring": ring}));
        }
        let mut n = 0u64;
        // plain hash: every length 0..=3 blocks+1, fed in one, two and byte-wise pieces; object reused
        for len in 0..=3 * bl + 1 {
            let d = pat(len, 1);
            let want = h.hash(&[&d]);
            for split in [0usize, len / 2, len] {
                let mut out = vec![0u8; 64];
                obj.reset();
                obj.input(&d[..split]);
                obj.input(&d[split..]);
                obj.result(&mut out);
                n += 1;
                if out[..hl] != want[..] {
                    ctx.violation("hash output differs from the standard", format!("{who} len {len} split {split}"), json!({"kind": "hash", "hash": h.name(), "ring": ring, "len": len, "split": split}));
                }
            }
        }
        // long inputs (several thousand blocks)
        for len in [1000usize, 4095, 4096, 4097, 65535, 100_000] {
            let d = pat(len, 2);
            let want = h.hash(&[&d]);
            let mut out = vec![0u8; 64];
            obj.reset();
            obj.input(&d[..len / 3]);
            obj.input(&d[len / 3..]);
            obj.result(&mut out);
            n += 1;
            if out[..hl] != want[..] {
                ctx.violation("hash output differs from the standard", format!("{who} len {len}"), json!({"kind": "hash", "hash": h.name(), "ring": ring, "len": len}));
            }
        }
        // HMAC: every key length 0..=block_len x every data length 0..=3*block_len+1 (stride in quick)
        let dstep = if thorough { 1 } else { 7 };
        for klen in 0..=bl {
            let key = pat(klen, 3);
            let mut dl = 0;
            while dl <= 3 * bl + 1 {
                let data = pat(dl, 9);
                let mut out = vec![0u8; 64];
                let r = catch_unwind(AssertUnwindSafe(|| obj.hmac(&key, &data, &mut out)));
                n += 1;
                let want = h.hmac(&key, &data);
                if r.is_err() || out[..hl] != want[..] {
                    ctx.violation("HMAC output differs from RFC 2104", format!("{who} key_len {klen} data_len {dl}"), json!({"kind": "hmac", "hash": h.name(), "ring": ring, "klen": klen, "dlen": dl}));
                }
                dl += if klen % 16 == 0 || klen == bl || klen + 1 == bl { 1 } else { dstep };
            }
        }
        // the same object keyed in other orders: descending lengths (each key a prefix of the previous one),
        // alternating short/long, equal-length keys differing in one byte, the empty key after a long one -
        // an implementation that caches key schedules must not confuse them
        let mut order: Vec<usize> = (0..=bl).rev().collect();
        order.extend([bl, 0, bl / 2, 1, bl, 20, 32, 20, 0, hl, bl]);
        for klen in order {
            for tag in [3u8, 4u8] {
                let key = pat(klen, tag);
                let data = pat(37, 9);
                let mut out = vec![0u8; 64];
                let r = catch_unwind(AssertUnwindSafe(|| obj.hmac(&key, &data, &mut out)));
                n += 1;
                if r.is_err() || out[..hl] != h.hmac(&key, &data)[..] {
                    ctx.violation("HMAC output differs from RFC 2104", format!("{who} key_len {klen} after other keys on the same object (descending / alternating order)"), json!({"kind": "hmac-order", "hash": h.name(), "ring": ring, "klen": klen}));
                    break;
                }
            }
        }
        // HKDF
        for outputs in 1..=3usize {
            for il in [0usize, 1, 31, 32, 33, 56, 64, 65, 128] {
                for ck in [vec![0u8; hl], pat(hl, 5), vec![0xff; hl]] {
                    let ikm = pat(il, 11);
                    let (mut o1, mut o2, mut o3) = (vec![0u8; 64], vec![0u8; 64], vec![0u8; 64]);
                    let r = catch_unwind(AssertUnwindSafe(|| obj.hkdf(&ck, &ikm, outputs, &mut o1, &mut o2, &mut o3)));
                    n += 1;
                    let want = h.hkdf(&ck, &ikm, outputs);
                    let got = [&o1, &o2, &o3];
                    let ok = r.is_ok() && (0..outputs).all(|k| got[k][..hl] == want[k][..]);
                    if !ok {
                        ctx.violation("HKDF output differs from the Noise HKDF definition", format!("{who} outputs {outputs} ikm_len {il}"), json!({"kind": "hkdf", "hash": h.name(), "ring": ring, "outputs": outputs, "ikm_len": il, "ck": hex::encode(&ck)}));
                    }
                }
            }
        }
        ctx.add(&ctx.evaluations, n);
        ctx.add(&ctx.nontrivial, n);
        ctx.count("hash_hmac_hkdf_cases", n);
    });
}

// ---- AEAD -----------------------------------------------------------------------------------
fn nonces() -> Vec<u64> {
    super::c04::nonces().into_iter().chain([u64::MAX]).collect()
}

fn aead_case(ctx: &Ctx, c: CipherAlg, ring: bool, obj: &mut Box<dyn Cipher>, key: &[u8; 32], n: u64, ad: &[u8], pt: &[u8], flips: bool) {
    let who = format!("{} {}", bk(ring), c.name());
    let case = json!({"kind": "aead", "cipher": c.name(), "ring": ring, "key": hex::encode(key), "nonce": n, "ad_len": ad.len(), "pt_len": pt.len()});
    obj.set(key);
    let mut out = vec![0u8; pt.len() + 16];
    let r = catch_unwind(AssertUnwindSafe(|| obj.encrypt(n, ad, pt, &mut out)));
    let want = c.encrypt(key, n, ad, pt);
    ctx.add(&ctx.evaluations, 1);
    match r {
        Ok(len) if len == want.len() && out == want => {},
        Ok(len) => {
            ctx.violation("AEAD ciphertext differs from the standard with the Noise nonce encoding", format!("{who} nonce {n:#x} ad {} pt {} -> len {len}", ad.len(), pt.len()), case.clone());
            return;
        },
        Err(_) => {
            ctx.violation("Cipher::encrypt panicked", format!("{who} nonce {n:#x}"), case.clone());
            return;
        },
    }
    // decryption inverts it - whatever the size of the output buffer (exact, a few spare bytes, room for
    // the tag, larger): backends branch on out.len() vs ciphertext.len()
    let spares: &[usize] = if pt.len() <= 256 { &[0, 1, 8, 15, 16, 17, 40] } else { &[0, 16] };
    for spare in spares {
        let mut back = vec![0u8; pt.len() + spare];
        ctx.add(&ctx.evaluations, 1);
        match catch_unwind(AssertUnwindSafe(|| obj.decrypt(n, ad, &want, &mut back))) {
            Ok(Ok(l)) if l == pt.len() && back[..l] == *pt => {},
            other => {
                ctx.violation("decrypt does not invert encrypt", format!("{who} nonce {n:#x} ad {} pt {} out buffer {}: {:?}", ad.len(), pt.len(), pt.len() + spare, other.map(|r| r.map_err(|e| format!("{e:?}")))), case.clone());
                break;
            },
        }
    }
    ctx.add(&ctx.nontrivial, 1);
    if !flips {
        return;
    }
    // ... and rejects everything else: every single-bit flip, every truncation, wrong nonce / ad / key
    let rej = |what: &str, obj: &mut Box<dyn Cipher>, n2: u64, ad2: &[u8], ct: &[u8]| {
        if ct.len() < 16 {
            return; // below a tag the trait's contract (ciphertext.len() >= TAGLEN) is the caller's
        }
        let mut o = vec![0u8; ct.len()];
        ctx.add(&ctx.evaluations, 1);
        if let Ok(Ok(_)) = catch_unwind(AssertUnwindSafe(|| obj.decrypt(n2, ad2, ct, &mut o))) {
            ctx.violation(format!("decrypt accepted {what}"), format!("{who} nonce {n:#x} ad {} pt {}", ad.len(), pt.len()), case.clone());
        }
    };
    if want.len() <= 48 {
        for b in 0..want.len() * 8 {
            let mut ct = want.clone();
            ct[b / 8] ^= 1 << (b % 8);
            rej("a ciphertext with one bit flipped", obj, n, ad, &ct);
        }
        for t in 16..want.len() {
            rej("a truncated ciphertext", obj, n, ad, &want[..t]);
        }
    }
    rej("a ciphertext under a different nonce", obj, n ^ 1, ad, &want);
    rej("a ciphertext under a nonce differing in the high half", obj, n ^ (1 << 40), ad, &want);
    let mut ad2 = ad.to_vec();
    ad2.push(0);
    rej("a ciphertext with extended associated data", obj, n, &ad2, &want);
    if !ad.is_empty() {
        let mut ad3 = ad.to_vec();
        ad3[0] ^= 1;
        rej("a ciphertext with altered associated data", obj, n, &ad3, &want);
    }
    let mut k2 = *key;
    k2[31] ^= 0x80;
    obj.set(&k2);
    rej("a ciphertext under a different key", obj, n, ad, &want);
    obj.set(key);
}

fn aead_part(ctx: &Ctx, thorough: bool) {
    let mut jobs: Vec<(CipherAlg, bool)> = vec![];
    for c in refnoise::prims::ALL_CIPHERS {
        jobs.push((c, false));
        if c != CipherAlg::XChaChaPoly {
            jobs.push((c, true));
        }
    }
    jobs.par_iter().for_each(|(c, ring)| {
        let Some(mut obj) = resolver(*ring).resolve_cipher(&cipher_choice(*c)) else { return };
        if obj.name() != c.name() {
            ctx.violation("cipher object reports the wrong name", format!("{} {}", bk(*ring), c.name()), json!({"kind": "aead-meta"}));
        }
        let key0: [u8; 32] = pat(32, 0x42).try_into().unwrap();
        let ad0 = pat(3, 1);
        let pt0 = pat(17, 2);
        // default point
        aead_case(ctx, *c, *ring, &mut obj, &key0, 5, &ad0, &pt0, true);
        // keys: zero, counter, every single-bit key
        let mut keys: Vec<[u8; 32]> = vec![[0; 32], [0xff; 32]];
        for b in 0..256 {
            let mut k = [0u8; 32];
            k[b / 8] = 1 << (b % 8);
            keys.push(k);
        }
        for k in &keys {
            aead_case(ctx, *c, *ring, &mut obj, k, 5, &ad0, &pt0, false);
        }
        // nonces (boundary, every single bit, endianness witness, the reserved value used by rekey)
        for n in nonces() {
            aead_case(ctx, *c, *ring, &mut obj, &key0, n, &ad0, &pt0, true);
            aead_case(ctx, *c, *ring, &mut obj, &key0, n, &[], &[], false);
        }
        // associated data and plaintext lengths (block edges), jointly on a grid
        let ads: Vec<usize> = (0..=33).chain([63, 64, 65, 128]).collect();
        let pts: Vec<usize> = (0..=65).chain([127, 128, 129, 255, 256, 1000]).collect();
        for a in &ads {
            for p in &pts {
                if true || thorough || *a <= 17 || *p <= 17 || (a % 16 <= 1 && p % 16 <= 1) {
                    aead_case(ctx, *c, *ring, &mut obj, &key0, 0x0102_0304_0506_0708, &pat(*a, 7), &pat(*p, 8), *p <= 32 && *a <= 1);
                }
            }
        }
        for p in [65518usize, 65519] {
            aead_case(ctx, *c, *ring, &mut obj, &key0, 1 << 33, &pat(32, 7), &pat(p, 8), false);
        }
        // every plaintext length (thorough; quick: every length below 1100, every 64th up to 65519 and
        // the neighbours of every power of two) - chunked processing bugs hide at lengths no alphabet names
        let big = pat(65519, 9);
        let mut lens: Vec<usize> = if thorough { (0..=65519).collect() } else { (0..1100).chain((1100..=65519).step_by(64)).collect() };
        for k in 10..16 {
            lens.extend([(1usize << k) - 1, 1 << k, (1 << k) + 1]);
        }
        lens.sort_unstable();
        lens.dedup();
        lens.retain(|l| *l <= 65519);
        let mut out = vec![0u8; 65535];
        let mut back = vec![0u8; 65535];
        for l in lens {
            obj.set(&key0);
            let n = obj.encrypt(7 + l as u64, &ad0, &big[..l], &mut out[..l + 16]);
            ctx.add(&ctx.evaluations, 1);
            let want = c.encrypt(&key0, 7 + l as u64, &ad0, &big[..l]);
            if n != l + 16 || out[..n] != want[..] {
                ctx.violation("AEAD ciphertext differs from the standard with the Noise nonce encoding", format!("{} {} plaintext length {l}", bk(*ring), c.name()), json!({"kind": "aead-len", "cipher": c.name(), "ring": ring, "len": l}));
                break;
            }
            match obj.decrypt(7 + l as u64, &ad0, &want, &mut back[..l]) {
                Ok(m) if m == l && back[..l] == big[..l] => {},
                _ => {
                    ctx.violation("decrypt does not invert encrypt", format!("{} {} plaintext length {l}", bk(*ring), c.name()), json!({"kind": "aead-len", "cipher": c.name(), "ring": ring, "len": l}));
                    break;
                },
            }
            ctx.add(&ctx.nontrivial, 1);
        }
        // rekey (trait default or backend override) against the reference REKEY
        for k in [&key0, &keys[0], &keys[7]] {
            obj.set(k);
            obj.rekey();
            let nk = c.rekey(k);
            let mut out = vec![0u8; 16 + 3];
            let l = obj.encrypt(0, &[], b"abc", &mut out);
            ctx.add(&ctx.evaluations, 1);
            if out[..l] != c.encrypt(&nk, 0, &[], b"abc")[..] {
                ctx.violation("Cipher::rekey does not install REKEY(k)", format!("{} {}", bk(*ring), c.name()), json!({"kind": "rekey", "cipher": c.name(), "ring": ring, "key": hex::encode(k)}));
            }
        }
    });
}

// ---- DH -------------------------------------------------------------------------------------
fn dh_part(ctx: &Ctx, thorough: bool) {
    let h = |s: &str| hex::decode(s).unwrap();
    for (alg, choice) in [(DhAlg::X25519, DHChoice::Curve25519), (DhAlg::P256, DHChoice::P256)] {
        let mk = || DefaultResolver.resolve_dh(&choice).unwrap();
        let who = alg.name();
        let probe = mk();
        if probe.pub_len() != alg.publen() || probe.priv_len() != 32 || probe.dh_len() != 32 || probe.name() != alg.name() {
            ctx.violation("DH object reports wrong name/lengths", who, json!({"kind": "dh-meta", "dh": who}));
        }
        // scalars
        let mut scalars: Vec<Vec<u8>> = vec![h("a546e36bf0527c9d3b16154b82465edd62144c0ac1fc5a18506a2244ba449ac4"), h("77076d0a7318a57d3c16c17251b26645df4c2f87ebc0992ab177fba51db92c2a"), h("5dab087e624a8a4b79e17f8b83800ee66f3bb1292618b6fd1c2f8b27ff88e0eb"), h("C88F01F510D9AC3F70A292DAA2316DE544E9AAB8AFE84049C62A9C57862D1433")];
        for b in 0..256 {
            let mut k = vec![0u8; 32];
            k[b / 8] = 1 << (b % 8);
            scalars.push(k);
        }
        for t in 0..16u8 {
            scalars.push(pat(32, t.wrapping_mul(37)));
        }
        if alg == DhAlg::X25519 {
            scalars.push(vec![0xff; 32]);
            scalars.push(vec![0; 32]);
            let mut k = vec![0xffu8; 32];
            k[0] = 0xf8;
            k[31] = 0x7f;
            scalars.push(k);
        } else {
            // n - 1 (largest valid scalar)
            scalars.push(h("ffffffff00000000ffffffffffffffffbce6faada7179e84f3b9cac2fc632550"));
            let mut one = vec![0u8; 32];
            one[31] = 1;
            scalars.push(one);
        }
        // points
        let mut points: Vec<Vec<u8>> = vec![];
        for s in scalars.iter().step_by(9) {
            if let Some(p) = alg.pubkey(s) {
                points.push(p);
            }
        }
        if alg == DhAlg::X25519 {
            let mut base = vec![0u8; 32];
            base[0] = 9;
            points.push(base);
            points.push(h("e6db6867583030db3594c1a424b15f7c726624ec26b3353b10a903a6d0ab1c4c"));
            // low-order points and non-canonical encodings (RFC 7748 section 6 / curve25519 low order list)
            for lp in ["0000000000000000000000000000000000000000000000000000000000000000", "0100000000000000000000000000000000000000000000000000000000000000", "e0eb7a7c3b41b8ae1656e3faf19fc46ada098deb9c32b1fd866205165f49b800", "5f9c95bca3508c24b1d0b1559c83ef5b04445cc4581c8e86d8224eddd09f1157", "ecffffffffffffffffffffffffffffffffffffffffffffffffffffffffffff7f", "edffffffffffffffffffffffffffffffffffffffffffffffffffffffffffff7f", "eeffffffffffffffffffffffffffffffffffffffffffffffffffffffffffff7f", "ffffffffffffffffffffffffffffffffffffffffffffffffffffffffffffffff", "0000000000000000000000000000000000000000000000000000000000000080"] {
                points.push(h(lp));
            }
            // arbitrary u-coordinates (about half of them on the twist)
            for t in 0..64u8 {
                points.push(scripted_bytes(u64::from(t) + 900, 0, 32));
            }
        } else {
            // invalid encodings: not on the curve, wrong prefix, the identity
            let good = alg.pubkey(&scalars[4]).unwrap();
            let mut off = good.clone();
            off[64] ^= 1;
            points.push(off);
            let mut pre = good.clone();
            pre[0] = 0x05;
            points.push(pre);
            let mut z = vec![0u8; 65];
            z[0] = 4;
            points.push(z);
            let mut comp = good[..33].to_vec();
            comp[0] = 0x02 | (good[64] & 1);
            comp.resize(65, 0);
            points.push(comp);
        }
        let cases: Vec<(&Vec<u8>, &Vec<u8>)> = scalars.iter().flat_map(|s| points.iter().map(move |p| (s, p))).collect();
        
        cases.par_iter().for_each(|(s, p)| {
            let mut d = mk();
            let case = json!({"kind": "dh", "dh": who, "scalar": hex::encode(s), "point": hex::encode(p)});
            let valid = alg.valid_private(s);
            ctx.add(&ctx.evaluations, 1);
            let set = catch_unwind(AssertUnwindSafe(|| d.set(s)));
            if set.is_err() {
                if valid {
                    ctx.violation("Dh::set panicked on a valid private key", format!("{who} scalar {}", hex::encode(s)), case.clone());
                } else {
                    // P-256 scalar 0 or >= n: Dh::set has no error path (recorded finding, decided by C10)
                }
                return;
            }
            if !valid {
                return;
            }
            if Some(d.pubkey().to_vec()) != alg.pubkey(s) {
                ctx.violation("public key differs from the standard", format!("{who} scalar {}", hex::encode(s)), case.clone());
                return;
            }
            let mut out = [0u8; 65];
            let r = catch_unwind(AssertUnwindSafe(|| d.dh(p, &mut out)));
            let want = alg.dh_noise(s, p);
            match (r, want) {
                (Ok(Ok(())), Some(w)) => {
                    ctx.add(&ctx.nontrivial, 1);
                    if out[..32] != w[..] {
                        ctx.violation("DH shared secret differs from the standard", format!("{who} scalar {} point {}", hex::encode(s), hex::encode(p)), case);
                    }
                },
                (Ok(Err(_)), None) => {
                    ctx.add(&ctx.nontrivial, 1);
                },
                (Ok(Ok(())), None) => ctx.violation("DH accepted an invalid public key", format!("{who} point {}", hex::encode(p)), case),
                // RFC 7748 section 6.1 / Noise 12.1: an implementation MAY abort on the all-zero output (low-order
                // points); returning the zeros and refusing are both the standard's behaviour
                (Ok(Err(_)), Some(w)) if alg == DhAlg::X25519 && w.iter().all(|b| *b == 0) => {
                    ctx.add(&ctx.nontrivial, 1);
                },
                (Ok(Err(e)), Some(_)) => ctx.violation("DH rejected a valid public key", format!("{who} point {}: {e:?}", hex::encode(p)), case),
                (Err(_), _) => ctx.violation("Dh::dh panicked", format!("{who} point {}", hex::encode(p)), case),
            }
        });
        // generated key pairs under each scripted stream: consistent, symmetric, distinct
        let mut pubs: Vec<Vec<u8>> = vec![];
        let mut pairs: Vec<(Vec<u8>, Vec<u8>)> = vec![];
        for seed in 0..24u64 {
            let res = SeamResolver::new(Backend::Default, RngMode::Scripted(5000 + seed), false, Log::new());
            let mut rng = res.resolve_rng().unwrap();
            let mut d = mk();
            ctx.add(&ctx.evaluations, 1);
            if catch_unwind(AssertUnwindSafe(|| d.generate(&mut *rng))).is_err() {
                ctx.violation("Dh::generate panicked", format!("{who} stream {seed}"), json!({"kind": "dh-gen", "dh": who, "seed": seed}));
                continue;
            }
            let (sk, pk) = (d.privkey().to_vec(), d.pubkey().to_vec());
            if alg.pubkey(&sk) != Some(pk.clone()) {
                ctx.violation("generated key pair is inconsistent", format!("{who} stream {seed}"), json!({"kind": "dh-gen", "dh": who, "seed": seed}));
            }
            if pubs.contains(&pk) {
                ctx.violation("distinct RNG streams produced the same key pair", format!("{who} stream {seed}"), json!({"kind": "dh-gen", "dh": who, "seed": seed}));
            }
            pubs.push(pk.clone());
            pairs.push((sk, pk));
        }
        for a in 0..pairs.len() {
            let b = (a + 1) % pairs.len();
            let (mut da, mut db) = (mk(), mk());
            da.set(&pairs[a].0);
            db.set(&pairs[b].0);
            let (mut o1, mut o2) = ([0u8; 65], [0u8; 65]);
            let _ = da.dh(&pairs[b].1, &mut o1);
            let _ = db.dh(&pairs[a].1, &mut o2);
            ctx.add(&ctx.evaluations, 1);
            if o1[..32] != o2[..32] {
                ctx.violation("dh(a, B) != dh(b, A) for generated key pairs", who, json!({"kind": "dh-gen", "dh": who, "seed": a}));
            }
        }
        // one Dh object used again: every order of set / generate calls (length <= 3) followed by a DH - the
        // object must behave as the key it REPORTS (privkey / pubkey consistent, dh computed with that key),
        // whatever it held before
        {
            let peer = alg.pubkey(&crate::exec::key_bytes(6)).unwrap();
            let keys = [crate::exec::key_bytes(1), crate::exec::key_bytes(2)];
            for len in 1..=3usize {
                for code in 0..3usize.pow(len as u32) {
                    let mut d = mk();
                    let mut x = code;
                    let mut trace = vec![];
                    let mut ok = true;
                    for step in 0..len {
                        let a = x % 3;
                        x /= 3;
                        if a < 2 {
                            d.set(&keys[a]);
                            trace.push(if a == 0 { "set(k1)" } else { "set(k2)" });
                        } else {
                            let res = SeamResolver::new(Backend::Default, RngMode::Scripted(7000 + (code * 3 + step) as u64), false, Log::new());
                            let mut rng = res.resolve_rng().unwrap();
                            if catch_unwind(AssertUnwindSafe(|| d.generate(&mut *rng))).is_err() {
                                ok = false; // a panic here is the recorded C10 finding (invalid scalar), not this clause
                                break;
                            }
                            trace.push("generate");
                        }
                    }
                    if !ok {
                        continue;
                    }
                    ctx.add(&ctx.evaluations, 1);
                    let (sk, pk) = (d.privkey().to_vec(), d.pubkey().to_vec());
                    let mut out = [0u8; 65];
                    let r = catch_unwind(AssertUnwindSafe(|| d.dh(&peer, &mut out)));
                    let want = alg.dh_noise(&sk, &peer);
                    let consistent = alg.pubkey(&sk) == Some(pk.clone());
                    let dh_ok = matches!((&r, &want), (Ok(Ok(())), Some(w)) if out[..w.len()] == w[..]);
                    if !consistent || !dh_ok {
                        ctx.violation("a reused Dh object does not behave as the key it reports", format!("{who} after {}: key pair consistent: {consistent}, dh with the reported private key: {dh_ok}", trace.join(", ")), json!({"kind": "dh-gen", "dh": who, "seed": code}));
                    }
                }
            }
        }
        // RFC 7748 iterated ladder (1 and 1000 iterations; 1000 only in thorough)
        if alg == DhAlg::X25519 {
            let iters = if thorough { 1000 } else { 1 };
            let mut k = vec![0u8; 32];
            k[0] = 9;
            let mut u = k.clone();
            for _ in 0..iters {
                let mut d = mk();
                d.set(&k);
                let mut out = [0u8; 32];
                let _ = d.dh(&u, &mut out);
                u = k.clone();
                k = out.to_vec();
            }
            let want = if thorough { "684cf59ba83309552800ef566f2f4d3c1c3887c49360e3875f2eb94d99532c51" } else { "422c8e7a6227d7bca1350b3e2bb7279f7897b87bb6854b783c60e80311ae3079" };
            ctx.add(&ctx.evaluations, 1);
            if hex::encode(&k) != want {
                ctx.violation("RFC 7748 iterated X25519 test fails", format!("{iters} iterations: {}", hex::encode(&k)), json!({"kind": "ladder", "iters": iters}));
            }
        }
    }
}

/// The random sources the built-in resolvers hand out (DefaultResolver, RingResolver, and ring preferred over
/// default): "generated key pairs are consistent and distinct" presupposes that the source really fills what it is
/// given. Every buffer length 0..=80 plus 200 and 4096 through fill_bytes and try_fill_bytes with two different
/// prefills; for lengths >= 16 the result must differ from the prefill, from a second fill, and from what a second
/// source object delivers. Then Dh::generate with each source x each DH: consistent pairs, pairwise distinct.
/// (An honest source fails one of these inequalities with probability <= 2^-120 per test; nothing here is sampled
/// in the sense of choosing which behaviours to look at - the enumeration is over lengths, entry points and sources.)
fn rng_part(ctx: &Ctx) {
    use snow::resolvers::{CryptoResolver, DefaultResolver, FallbackResolver, RingResolver};
    let sources: Vec<(&str, Box<dyn Fn() -> Option<Box<dyn snow::types::Random>>>)> = vec![
        ("DefaultResolver", Box::new(|| DefaultResolver.resolve_rng())),
        ("RingResolver", Box::new(|| RingResolver.resolve_rng())),
        ("FallbackResolver(ring, default)", Box::new(|| FallbackResolver::new(Box::new(RingResolver), Box::new(DefaultResolver)).resolve_rng())),
    ];
    for (who, mk) in &sources {
        let bad = |what: String| ctx.violation("a built-in random source does not fill the buffer it is given with fresh bytes", format!("{who}: {what}"), json!({"kind": "rng", "source": who}));
        let (Some(mut a), Some(mut b)) = (mk(), mk()) else {
            bad("no random source".into());
            continue;
        };
        let mut lens: Vec<usize> = (0..=80).collect();
        lens.extend([200, 4096]);
        for len in lens {
            for entry in 0..2 {
                for prefill in [0u8, 0xC9] {
                    ctx.add(&ctx.evaluations, 1);
                    let fill = |g: &mut Box<dyn snow::types::Random>| -> Result<Vec<u8>, String> {
                        let mut buf = vec![prefill; len];
                        let r = catch_unwind(AssertUnwindSafe(|| if entry == 0 {
                            g.fill_bytes(&mut buf);
                            Ok(())
                        } else {
                            g.try_fill_bytes(&mut buf).map_err(|e| format!("{e}"))
                        }));
                        match r {
                            Ok(Ok(())) => Ok(buf),
                            Ok(Err(e)) => Err(format!("try_fill_bytes failed: {e}")),
                            Err(_) => Err("panicked".into()),
                        }
                    };
                    let what = format!("{} of {len} bytes over a {prefill:#04x} prefill", if entry == 0 { "fill_bytes" } else { "try_fill_bytes" });
                    match (fill(&mut a), fill(&mut a), fill(&mut b)) {
                        (Ok(x), Ok(y), Ok(z)) => {
                            if len >= 16 {
                                ctx.add(&ctx.nontrivial, 1);
                                if x.iter().all(|v| *v == prefill) || x[len / 2..].iter().all(|v| *v == prefill) || x[..len / 2].iter().all(|v| *v == prefill) {
                                    bad(format!("{what}: (half of) the buffer is left as it was"));
                                } else if x == y {
                                    bad(format!("{what}: two consecutive fills are equal"));
                                } else if x == z {
                                    bad(format!("{what}: two source objects deliver the same bytes"));
                                }
                            }
                        },
                        (Err(e), _, _) | (_, Err(e), _) | (_, _, Err(e)) => bad(format!("{what}: {e}")),
                    }
                }
            }
        }
        // key pairs generated from this source
        for (alg, choice) in [(DhAlg::X25519, DHChoice::Curve25519), (DhAlg::P256, DHChoice::P256)] {
            let mut seen: Vec<Vec<u8>> = vec![];
            for k in 0..8 {
                ctx.add(&ctx.evaluations, 1);
                let Some(mut d) = DefaultResolver.resolve_dh(&choice) else { continue };
                let mut g = if k % 2 == 0 { mk().unwrap() } else { std::mem::replace(&mut a, mk().unwrap()) };
                if catch_unwind(AssertUnwindSafe(|| d.generate(&mut *g))).is_err() {
                    continue; // the P-256 invalid-scalar panic is C10's recorded finding; unreachable with an honest source
                }
                let (sk, pk) = (d.privkey().to_vec(), d.pubkey().to_vec());
                if alg.pubkey(&sk) != Some(pk.clone()) {
                    bad(format!("{} key pair generated from it is inconsistent", alg.name()));
                }
                if seen.contains(&pk) {
                    bad(format!("two {} key pairs generated from it are equal", alg.name()));
                }
                seen.push(pk);
                ctx.add(&ctx.nontrivial, 1);
            }
        }
    }
}

pub fn run(tier: Tier) -> i32 {
    let ctx = Ctx::new("C18", tier, "model_checking");
    ctx.bind_model();
    // (the full sweep costs well under a minute: the quick tier runs it too)
    let thorough = true;
    ctx.set_rule("every case calls the public trait methods of the objects returned by DefaultResolver / RingResolver and compares with an independent implementation: hash (all lengths 0..=3 blocks+1, split inputs), HMAC (every key length 0..=block_len x data lengths 0..=3 blocks+1), HKDF (1/2/3 outputs x ikm lengths x chaining keys), AEAD (keys: zero, ones, every single-bit key; nonces: boundary + every single bit + endianness witness + 2^64-1; ad/pt length grid around block edges, 65519; round trip; every bit flip and truncation of ciphertexts <= 48 bytes, wrong nonce/ad/key rejected; rekey), DH (RFC vectors, every single-bit scalar, edge scalars x base/RFC/low-order/non-canonical/arbitrary points; P-256 invalid encodings; generated key pairs consistent, symmetric, distinct; RFC 7748 iterated test); the random sources of DefaultResolver / RingResolver / ring-over-default: every buffer length 0..=80, 200, 4096 x fill_bytes / try_fill_bytes x two prefills really filled, consecutive fills and source objects differ, key pairs generated from them consistent and pairwise distinct");
    hash_part(&ctx, true);
    aead_part(&ctx, thorough);
    dh_part(&ctx, thorough);
    rng_part(&ctx);
    let ev = ctx.evaluations.load(std::sync::atomic::Ordering::Relaxed);
    ctx.states.store(ev, std::sync::atomic::Ordering::Relaxed);
    ctx.transitions.store(ev, std::sync::atomic::Ordering::Relaxed);
    ctx.traces.store(ev, std::sync::atomic::Ordering::Relaxed);
    ctx.sample(json!({"kind": "hmac", "hash": "BLAKE2b", "backend": "default", "klen": 128, "dlen": 385}));
    ctx.sample(json!({"kind": "aead", "cipher": "AESGCM", "backend": "ring", "nonce": "0x0102030405060708", "ad_len": 33, "pt_len": 65}));
    ctx.sample(json!({"kind": "dh", "dh": "25519", "scalar": "single bit 254", "point": "low-order e0eb7a7c..."}));
    ctx.assume("'all keys / all scalars / all nonces' is closed by structured alphabets; lengths are exhaustive within the stated ranges");
    ctx.assume("BLAKE2 has no second implementation offline: its digests are anchored by RFC 7693 KATs and the cacophony vectors; HMAC/HKDF over it use the independent hmac/hkdf crates");
    ctx.assume("X25519 all-zero outputs (low-order points) are allowed by Noise; ring's rejection of them is mapped back to zeros in the oracle");
    ctx.assume("P-256 Dh::set with an invalid scalar (0 or >= n) is not judged here (no error path in the trait; see the C10 known finding)");
    *ctx.exhaustive.lock().unwrap() = Some(false);
    ctx.finish()
}

pub fn replay(_case: &serde_json::Value) -> Result<(), String> {
    // the primitive sweep is cheap and deterministic: re-run it entirely and report the first violation
    let ctx = Ctx::new("C18", Tier::Quick, "model_checking");
    hash_part(&ctx, false);
    aead_part(&ctx, false);
    dh_part(&ctx, false);
    rng_part(&ctx);
    let v = ctx.violations.lock().unwrap();
    match v.first() {
        Some(x) => Err(format!("{}: {}", x.signature, x.detail)),
        None => Ok(()),
    }
}
