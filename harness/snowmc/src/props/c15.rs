//! C15 Rekey follows the specification and keeps or breaks sync as expected (E2).
//! Model: per direction and side a key *term* Base | Rekey(term) | Manual(id) and a nonce;
//! a read succeeds iff sender term == receiver term and the nonce is in step; with the crypto
//! layer on, every written message is byte-identical to reference ENCRYPT(key(term), n, "", payload)
//! where REKEY(k) = ENCRYPT(k, 2^64-1, "", 0^32)[..32] computed by the reference AEAD.

use super::common::*;
use crate::{
    ctx::{Ctx, Tier},
    engine::seqmc::{self, SeqSpec},
    exec::{Cap, Cat, Config, Exec, Msg, Op, Side, WireMeta, SIDES},
    sess::{self, Mode},
};
use rayon::prelude::*;
use refnoise::{DhAlg, HashAlg};
use std::sync::Arc;

const CATS: [Cat; 7] = [Cat::ExpectedOkGotErr, Cat::ExpectedErrGotOk, Cat::OutBytes, Cat::OutLen, Cat::GetterNonce, Cat::WireBytes, Cat::Panic];

fn spec(cfg: Config, mode: Mode, depth: usize, devs: usize) -> SeqSpec {
    let proto = cfg.proto();
    let oneway = proto.pattern.is_oneway();
    let mut prefix = sess::handshake_ops(&proto, &[0, 0, 0, 0]);
    prefix.extend(sess::convert_ops(mode));
    let stateless = mode == Mode::SS;
    let alphabet = Arc::new(move |e: &Exec| {
        let mut a: Vec<(Op, bool)> = vec![];
        for s in SIDES {
            let peer = s.peer();
            let can_write = !(oneway && !s.is_init());
            let can_read = !(oneway && s.is_init());
            let tw: Vec<(usize, u64)> = e.wires[s.idx()].iter().enumerate().filter_map(|(k, w)| if let WireMeta::T { nonce, .. } = w.meta { Some((k, nonce)) } else { None }).collect();
            if can_write && tw.len() < 3 {
                a.push((if stateless { Op::SWrite { side: s, nonce: tw.len() as u64, plen: 5, cap: Cap::Roomy } } else { Op::TWrite { side: s, plen: 5, cap: Cap::Roomy } }, false));
            }
            if can_read {
                // the peer's latest message
                if let Some((k, WireMeta::T { nonce, .. })) = e.wires[peer.idx()].iter().enumerate().filter(|(_, w)| matches!(w.meta, WireMeta::T { .. })).map(|(k, w)| (k, w.meta.clone())).last() {
                    a.push((if stateless { Op::SRead { side: s, nonce, msg: Msg::Wire(peer, k), cap: Cap::Roomy } } else { Op::TRead { side: s, msg: Msg::Wire(peer, k), cap: Cap::Roomy } }, false));
                }
            }
            a.push((Op::RekeyOut { side: s }, false));
            a.push((Op::RekeyIn { side: s }, false));
            a.push((Op::RekeyInitManual { side: s, k: 1 }, false));
            a.push((Op::RekeyRespManual { side: s, k: 2 }, false));
            a.push((Op::RekeyManual { side: s, i: Some(1), r: Some(2) }, false));
            // a different manual key on one side only: must break exactly that direction
            if s == Side::I {
                a.push((Op::RekeyInitManual { side: s, k: 3 }, true));
                a.push((Op::RekeyManual { side: s, i: None, r: Some(4) }, true));
            }
        }
        a
    });
    let goal = Arc::new(|e: &Exec| {
        // a message accepted after both sides rekeyed that direction
        e.steps.iter().any(|s| matches!(s.op, Op::TRead { .. } | Op::SRead { .. }) && s.real.is_ok())
            && e.abs.iter().any(|a| a.keys.iter().any(|k| matches!(k, Some(crate::exec::KeyTerm::Rekey(_)))))
    });
    SeqSpec { cfg, prefix, max_depth: depth, max_devs: devs, alphabet, judge: Arc::new(judge), goal }
}

/// "leaves nonces untouched" is judged at the rekey calls themselves; what a *rejected read* does to the
/// counters is C05's business, and wire bytes are judged for transport writes only
fn judge(e: &Exec) -> Vec<(String, String)> {
    sess::filter(e, &CATS)
        .into_iter()
        .filter(|m| {
            let op = e.steps.get(m.step).map(|s| &s.op);
            match m.cat {
                Cat::GetterNonce => matches!(op, Some(Op::RekeyOut { .. } | Op::RekeyIn { .. } | Op::RekeyManual { .. } | Op::RekeyInitManual { .. } | Op::RekeyRespManual { .. })),
                Cat::WireBytes | Cat::OutLen => matches!(op, Some(Op::TWrite { .. } | Op::SWrite { .. })),
                _ => matches!(op, Some(Op::TWrite { .. } | Op::SWrite { .. } | Op::TRead { .. } | Op::SRead { .. } | Op::RekeyOut { .. } | Op::RekeyIn { .. } | Op::RekeyManual { .. } | Op::RekeyInitManual { .. } | Op::RekeyRespManual { .. })),
            }
        })
        .map(|m| (sess::signature(e, m), format!("{}: {}", e.cfg.name, m.detail)))
        .collect()
}


/// "leaves nonces untouched" for EVERY counter value, not just the small ones a short session reaches: both
/// counters of both parties are placed (set_receiving_nonce / the sending-nonce hook) on values across the range -
/// carry boundaries, the last usable nonce, the reserved one - and every rekey entry point is called; the nonce
/// getters must not move (judged by the executor's two-counter model), and at usable values a message still goes
/// through under the new key.
fn nonce_sweep(ctx: &Ctx) {
    let values = [0u64, 1, 255, 256, (1 << 32) - 1, 1 << 32, 1 << 63, u64::MAX - 2, u64::MAX - 1, u64::MAX];
    let rekeys = |w: Side, r: Side| -> Vec<Vec<Op>> {
        vec![
            vec![Op::RekeyOut { side: w }, Op::RekeyIn { side: r }],
            vec![Op::RekeyManual { side: w, i: Some(1), r: Some(2) }, Op::RekeyManual { side: r, i: Some(1), r: Some(2) }],
            vec![Op::RekeyInitManual { side: w, k: 3 }, Op::RekeyInitManual { side: r, k: 3 }],
            vec![Op::RekeyRespManual { side: w, k: 4 }, Op::RekeyRespManual { side: r, k: 4 }],
            vec![Op::RekeyIn { side: w }, Op::RekeyOut { side: r }],
        ]
    };
    let mut jobs = vec![];
    for (c, b) in cipher_backends() {
        for pat in ["NN", "N"] {
            for v in values {
                jobs.push((c, b, pat, v));
            }
        }
    }
    jobs.par_iter().for_each(|(c, b, pat, v)| {
        let p = proto(pat, &[], DhAlg::X25519, *c, HashAlg::Sha256);
        let mut cfg = Config::honest(&p, 0);
        cfg.backend = [*b, *b];
        cfg.record = true;
        cfg.crypto_oracle = false;
        let (w, r) = (Side::I, Side::R);
        let mut ops = sess::handshake_ops(&p, &[0, 0, 0, 0]);
        ops.extend(sess::convert_ops(Mode::TT));
        for rk in rekeys(w, r) {
            ops.push(Op::SetSendNonce { side: w, n: *v });
            ops.push(Op::SetRecvNonce { side: r, n: *v });
            ops.extend(rk);
            ops.push(Op::TWrite { side: w, plen: 4, cap: Cap::Roomy });
            ops.push(Op::TRead { side: r, msg: Msg::Last(w), cap: Cap::Roomy });
        }
        let e = sess::run(&cfg, &ops);
        ctx.add(&ctx.evaluations, 1);
        ctx.add(&ctx.nontrivial, 1);
        ctx.add(&ctx.transitions, e.steps.len() as u64);
        ctx.add(&ctx.traces, 1);
        if let Some((sig, d)) = judge(&e).into_iter().next() {
            let step = e.mism.iter().map(|m| m.step).min().unwrap_or(ops.len() - 1).min(ops.len() - 1);
            ctx.violation(format!("{sig} (counters placed on {v:#x})"), d, sess::case_json(&cfg, &ops[..=step]));
        }
    });
    ctx.count("nonce_sweep_sessions", jobs.len() as u64);
}

pub fn run(tier: Tier) -> i32 {
    let ctx = Ctx::new("C15", tier, "model_checking");
    ctx.bind_model(); // the reference AEAD (REKEY) is checked against its KATs first
    let (depth, devs) = if ctx.quick() { (5, 1) } else { (6, 2) };
    ctx.set_rule(format!("explicit-state BFS over sequences of {{write, read(latest peer message), rekey_outgoing, rekey_incoming, rekey_manually, rekey_initiator_manually, rekey_responder_manually}} on both endpoints, stateful and stateless, depth {depth}; each transition on real snow objects vs the key-term model, message bytes vs the reference AEAD; plus, for 10 counter values across the range (carry boundaries, 2^64-2, 2^64-1), every rekey entry point called with both counters of both parties placed there: the nonce getters must not move"));
    let mut specs = vec![];
    for (c, b) in cipher_backends() {
        for pat in ["NN", "N"] {
            for mode in [Mode::TT, Mode::SS] {
                let p = proto(pat, &[], DhAlg::X25519, c, HashAlg::Sha256);
                let mut cfg = Config::honest(&p, 0);
                cfg.backend = [b, b];
                cfg.record = true;
                cfg.crypto_oracle = false;
                specs.push((spec(cfg, mode, depth, devs), format!("{} {:?} {:?}", p.name, b, mode)));
            }
        }
    }
    specs.par_iter().for_each(|(s, label)| {
        let r = seqmc::explore(s.clone());
        absorb(&ctx, s, &r, label);
    });
    nonce_sweep(&ctx);
    let (s0, _) = &specs[0];
    sample_ops(&ctx, &s0.cfg, &{
        let mut o = s0.prefix.clone();
        o.push(Op::RekeyOut { side: Side::I });
        o.push(Op::RekeyIn { side: Side::R });
        o.push(Op::TWrite { side: Side::I, plen: 5, cap: Cap::Roomy });
        o.push(Op::TRead { side: Side::R, msg: Msg::Last(Side::I), cap: Cap::Roomy });
        o
    });
    ctx.set("depth_bound", serde_json::json!(depth));
    ctx.assume("manual keys from a 4-element alphabet; REKEY computed by the reference AEAD (ring / HChaCha20+ring), not by snow");
    *ctx.exhaustive.lock().unwrap() = Some(true);
    ctx.finish()
}

pub fn replay(case: &serde_json::Value) -> Result<(), String> {
    let (cfg, ops) = sess::case_from_json(case).ok_or("bad case")?;
    let e = sess::run(&cfg, &ops);
    match judge(&e).first() {
        Some((s, d)) => Err(format!("{s}: {d}\n{}", sess::describe_steps(&e).join("\n"))),
        None => Ok(()),
    }
}
