//! C20 Crypto backends are interchangeable and fallback resolution is correct (E1, complete).
//! Wire part: differential - every assignment of {Default, Ring+Default, Default+Ring} to the two
//! endpoints must produce the bytes the (Default, Default) session produces and interoperate.
//! Fallback part: a finite truth table over stub resolvers whose primitives carry an origin tag.

use crate::{
    ctx::{Ctx, Tier},
    exec::{Cap, Config, Exec, Msg, Op, Side},
    seam::{Backend, ALL_BACKENDS},
    sess::{self, Mode},
};
use rayon::prelude::*;
use refnoise::{patterns, CipherAlg, DhAlg, HashAlg, Proto};
use serde_json::json;
use snow::{
    params::{CipherChoice, DHChoice, HashChoice},
    resolvers::{BoxedCryptoResolver, CryptoResolver, FallbackResolver},
    types::{Cipher, Dh, Hash, Random},
};

fn ops_for(p: &Proto, mode: Mode) -> Vec<Op> {
    let oneway = p.pattern.is_oneway();
    let mut ops = sess::handshake_ops(p, &[3, 0, 17, 5]);
    ops.extend(sess::convert_ops(mode));
    let stateless = mode == Mode::SS;
    let mut n = [0u64; 2];
    let mut msg = |w: Side, plen: usize, ops: &mut Vec<Op>| {
        if oneway && w == Side::R {
            return;
        }
        let k = n[w.idx()];
        n[w.idx()] += 1;
        if stateless {
            ops.push(Op::SWrite { side: w, nonce: k, plen, cap: Cap::Roomy });
            ops.push(Op::SRead { side: w.peer(), nonce: k, msg: Msg::Last(w), cap: Cap::Roomy });
        } else {
            ops.push(Op::TWrite { side: w, plen, cap: Cap::Roomy });
            ops.push(Op::TRead { side: w.peer(), msg: Msg::Last(w), cap: Cap::Roomy });
        }
    };
    msg(Side::I, 9, &mut ops);
    msg(Side::R, 0, &mut ops);
    // a synchronised rekey of each direction, then more traffic (the backends must derive the same key)
    ops.push(Op::RekeyOut { side: Side::I });
    ops.push(Op::RekeyIn { side: Side::R });
    ops.push(Op::RekeyOut { side: Side::R });
    ops.push(Op::RekeyIn { side: Side::I });
    msg(Side::I, 300, &mut ops);
    msg(Side::R, 31, &mut ops);
    msg(Side::I, 1, &mut ops);
    ops
}

fn wires(e: &Exec) -> Vec<Vec<Vec<u8>>> {
    e.wires.iter().map(|w| w.iter().map(|x| x.bytes.clone()).collect()).collect()
}

// ---------------------------------------------------------------------------------------------
// fallback truth table

struct TagRng(u8);
impl rand_core::RngCore for TagRng {
    fn next_u32(&mut self) -> u32 {
        u32::from(self.0)
    }
    fn next_u64(&mut self) -> u64 {
        u64::from(self.0)
    }
    fn fill_bytes(&mut self, d: &mut [u8]) {
        d.fill(self.0);
    }
    fn try_fill_bytes(&mut self, d: &mut [u8]) -> Result<(), rand_core::Error> {
        d.fill(self.0);
        Ok(())
    }
}
impl rand_core::CryptoRng for TagRng {}
impl Random for TagRng {}

struct TagDh(&'static str);
impl Dh for TagDh {
    fn name(&self) -> &'static str {
        self.0
    }
    fn pub_len(&self) -> usize {
        32
    }
    fn priv_len(&self) -> usize {
        32
    }
    fn set(&mut self, _: &[u8]) {}
    fn generate(&mut self, _: &mut dyn Random) {}
    fn pubkey(&self) -> &[u8] {
        &[0; 32]
    }
    fn privkey(&self) -> &[u8] {
        &[0; 32]
    }
    fn dh(&self, _: &[u8], _: &mut [u8]) -> Result<(), snow::Error> {
        Ok(())
    }
}
struct TagHash(&'static str);
impl Hash for TagHash {
    fn name(&self) -> &'static str {
        self.0
    }
    fn block_len(&self) -> usize {
        64
    }
    fn hash_len(&self) -> usize {
        32
    }
    fn reset(&mut self) {}
    fn input(&mut self, _: &[u8]) {}
    fn result(&mut self, _: &mut [u8]) {}
}
struct TagCipher(&'static str);
impl Cipher for TagCipher {
    fn name(&self) -> &'static str {
        self.0
    }
    fn set(&mut self, _: &[u8; 32]) {}
    fn encrypt(&self, _: u64, _: &[u8], p: &[u8], _: &mut [u8]) -> usize {
        p.len() + 16
    }
    fn decrypt(&self, _: u64, _: &[u8], c: &[u8], _: &mut [u8]) -> Result<usize, snow::Error> {
        Ok(c.len().saturating_sub(16))
    }
}

/// A stub resolver providing the kinds in `mask` (bit 0 rng, 1 dh, 2 hash, 3 cipher), tagged.
struct Stub {
    mask: u8,
    tag: &'static str,
    tagb: u8,
}
impl CryptoResolver for Stub {
    fn resolve_rng(&self) -> Option<Box<dyn Random>> {
        (self.mask & 1 != 0).then(|| Box::new(TagRng(self.tagb)) as Box<dyn Random>)
    }
    fn resolve_dh(&self, _: &DHChoice) -> Option<Box<dyn Dh>> {
        (self.mask & 2 != 0).then(|| Box::new(TagDh(self.tag)) as Box<dyn Dh>)
    }
    fn resolve_hash(&self, _: &HashChoice) -> Option<Box<dyn Hash>> {
        (self.mask & 4 != 0).then(|| Box::new(TagHash(self.tag)) as Box<dyn Hash>)
    }
    fn resolve_cipher(&self, _: &CipherChoice) -> Option<Box<dyn Cipher>> {
        (self.mask & 8 != 0).then(|| Box::new(TagCipher(self.tag)) as Box<dyn Cipher>)
    }
}

const TAGS: [(&str, u8); 3] = [("A", 0xA1), ("B", 0xB2), ("C", 0xC3)];

/// what a resolver answers for each kind: the origin tag or None
fn answers(r: &dyn CryptoResolver, dh: &DHChoice, h: &HashChoice, c: &CipherChoice) -> [Option<String>; 4] {
    let rng = r.resolve_rng().map(|mut g| {
        let mut b = [0u8; 1];
        g.fill_bytes(&mut b);
        TAGS.iter().find(|t| t.1 == b[0]).map_or("?".to_string(), |t| t.0.to_string())
    });
    [rng, r.resolve_dh(dh).map(|x| x.name().to_string()), r.resolve_hash(h).map(|x| x.name().to_string()), r.resolve_cipher(c).map(|x| x.name().to_string())]
}

fn fallback_table(ctx: &Ctx) {
    let kinds = ["rng", "dh", "hash", "cipher"];
    let dhs = [DHChoice::Curve25519, DHChoice::Curve448, DHChoice::P256];
    let hs = [HashChoice::SHA256, HashChoice::SHA512, HashChoice::Blake2s, HashChoice::Blake2b];
    let cs = [CipherChoice::ChaChaPoly, CipherChoice::AESGCM, CipherChoice::XChaChaPoly];
    let mut n = 0u64;
    // depth 1: FallbackResolver(A, B) for every availability mask pair; depth 2: nested on either side
    for ma in 0..16u8 {
        for mb in 0..16u8 {
            for mc in [0u8, 5, 10, 15] {
                for shape in 0..3 {
                    let mk = |m: u8, t: usize| -> BoxedCryptoResolver { Box::new(Stub { mask: m, tag: TAGS[t].0, tagb: TAGS[t].1 }) };
                    // expected order of consultation
                    let (res, order): (BoxedCryptoResolver, Vec<(u8, usize)>) = match shape {
                        0 => (Box::new(FallbackResolver::new(mk(ma, 0), mk(mb, 1))), vec![(ma, 0), (mb, 1)]),
                        1 => (Box::new(FallbackResolver::new(Box::new(FallbackResolver::new(mk(ma, 0), mk(mb, 1))), mk(mc, 2))), vec![(ma, 0), (mb, 1), (mc, 2)]),
                        _ => (Box::new(FallbackResolver::new(mk(ma, 0), Box::new(FallbackResolver::new(mk(mb, 1), mk(mc, 2))))), vec![(ma, 0), (mb, 1), (mc, 2)]),
                    };
                    if shape == 0 && mc != 0 {
                        continue;
                    }
                    let choice = (ma as usize + mb as usize) % 3;
                    let got = answers(&*res, &dhs[choice], &hs[(ma as usize) % 4], &cs[choice]);
                    for (k, kind) in kinds.iter().enumerate() {
                        let want = order.iter().find(|(m, _)| m & (1 << k) != 0).map(|(_, t)| TAGS[*t].0.to_string());
                        n += 1;
                        if got[k] != want {
                            ctx.violation(
                                format!("FallbackResolver yields the wrong {kind}: {}", match (&got[k], &want) {
                                    (None, Some(_)) => "None although a member provides it",
                                    (Some(_), None) => "Some although no member provides it",
                                    _ => "not the first member's that provides it",
                                }),
                                format!("shape {shape} masks {ma:04b}/{mb:04b}/{mc:04b}: got {:?} want {:?}", got[k], want),
                                json!({"kind": "fallback", "shape": shape, "ma": ma, "mb": mb, "mc": mc}),
                            );
                        }
                    }
                }
            }
        }
    }
    ctx.count("fallback_truth_table_cells", n);
    ctx.add(&ctx.evaluations, n);
    ctx.add(&ctx.nontrivial, n);
    fallback_sequences(ctx);
}

/// A stub that provides only some *choices* of a kind (bit i of the mask = i-th choice).
struct ChoiceStub {
    dh: u8,
    hash: u8,
    cipher: u8,
    tag: &'static str,
}

/// What the two built-in resolvers provide: for every DH / hash / cipher choice the resolver answers Some at least
/// for the documented set (DefaultResolver: 25519, P256, all four hashes, all three ciphers; RingResolver: no DH,
/// SHA256 / SHA512, AESGCM / ChaChaPoly), and what it hands out IS the named primitive: its name() is the
/// choice's name and one known-answer computation equals the reference implementation of that primitive.
pub fn builtin_table(ctx: &Ctx) {
    use snow::resolvers::{DefaultResolver, RingResolver};
    let resolvers: [(&str, Box<dyn CryptoResolver>, bool); 2] = [("DefaultResolver", Box::new(DefaultResolver), false), ("RingResolver", Box::new(RingResolver), true)];
    for (rname, r, is_ring) in &resolvers {
        let bad = |what: String| ctx.violation("a built-in resolver hands out something else than the named primitive (or nothing although it documents it)", format!("{rname}: {what}"), json!({"kind": "builtin"}));
        for (choice, alg, documented) in [(DHChoice::Curve25519, Some(DhAlg::X25519), !is_ring), (DHChoice::P256, Some(DhAlg::P256), !is_ring), (DHChoice::Curve448, None, false)] {
            ctx.add(&ctx.evaluations, 1);
            match (r.resolve_dh(&choice), documented) {
                (None, false) => {},
                (None, true) => bad(format!("no DH for {choice:?}")),
                // (a resolver that offers more than the documented set is fine, as long as what it offers is the
                // named primitive; Curve448 has no reference here and is not judged)
                (Some(mut d), _) => {
                    let Some(alg) = alg else { continue };
                    let sk = crate::exec::key_bytes(1);
                    d.set(&sk);
                    let peer = alg.pubkey(&crate::exec::key_bytes(2)).unwrap();
                    let mut out = vec![0u8; 64];
                    let ok = d.name() == alg.name() && d.pub_len() == alg.publen() && Some(d.pubkey().to_vec()) == alg.pubkey(&sk) && d.dh(&peer, &mut out).is_ok() && alg.dh_noise(&sk, &peer).map_or(false, |want| out[..want.len()] == want[..]);
                    if !ok {
                        bad(format!("the DH object for {choice:?} is named {:?} and does not compute {}", d.name(), alg.name()));
                    }
                    ctx.add(&ctx.nontrivial, 1);
                },
            }
        }
        for (choice, alg) in [(HashChoice::SHA256, HashAlg::Sha256), (HashChoice::SHA512, HashAlg::Sha512), (HashChoice::Blake2s, HashAlg::Blake2s), (HashChoice::Blake2b, HashAlg::Blake2b)] {
            ctx.add(&ctx.evaluations, 1);
            let documented = !is_ring || matches!(alg, HashAlg::Sha256 | HashAlg::Sha512);
            match (r.resolve_hash(&choice), documented) {
                (None, false) => {},
                (None, true) => bad(format!("no hash for {choice:?}")),
                (Some(mut h), _) => {
                    let mut out = vec![0u8; 64];
                    h.reset();
                    h.input(b"built-in resolver table");
                    h.result(&mut out);
                    let want = alg.hash(&[b"built-in resolver table"]);
                    if h.name() != alg.name() || h.hash_len() != alg.hashlen() || h.block_len() != alg.blocklen() || out[..want.len()] != want[..] {
                        bad(format!("the hash object for {choice:?} is named {:?} and does not compute {}", h.name(), alg.name()));
                    }
                    ctx.add(&ctx.nontrivial, 1);
                },
            }
        }
        for (choice, alg) in [(CipherChoice::ChaChaPoly, CipherAlg::ChaChaPoly), (CipherChoice::AESGCM, CipherAlg::AesGcm), (CipherChoice::XChaChaPoly, CipherAlg::XChaChaPoly)] {
            ctx.add(&ctx.evaluations, 1);
            let documented = !is_ring || alg != CipherAlg::XChaChaPoly;
            match (r.resolve_cipher(&choice), documented) {
                (None, false) => {},
                (None, true) => bad(format!("no cipher for {choice:?}")),
                (Some(mut c), _) => {
                    let key = [0x42u8; 32];
                    c.set(&key);
                    let mut out = vec![0u8; 64];
                    let n = c.encrypt(0x0102_0304_0506_0708, b"ad", b"built-in table", &mut out);
                    let want = alg.encrypt(&key, 0x0102_0304_0506_0708, b"ad", b"built-in table");
                    if c.name() != alg.name() || out[..n] != want[..] {
                        bad(format!("the cipher object for {choice:?} is named {:?} and does not compute {}", c.name(), alg.name()));
                    }
                    ctx.add(&ctx.nontrivial, 1);
                },
            }
        }
        ctx.add(&ctx.evaluations, 1);
        if r.resolve_rng().is_none() {
            bad("no random source".to_string());
        }
    }
    ctx.count("builtin_resolver_table_entries", 22);
}

fn dh_idx(c: &DHChoice) -> u8 {
    match c {
        DHChoice::Curve25519 => 0,
        DHChoice::Curve448 => 1,
        _ => 2,
    }
}
fn hash_idx(c: &HashChoice) -> u8 {
    match c {
        HashChoice::SHA256 => 0,
        HashChoice::SHA512 => 1,
        HashChoice::Blake2s => 2,
        #[allow(unreachable_patterns)]
        HashChoice::Blake2b => 3,
        #[allow(unreachable_patterns)]
        _ => 4,
    }
}
fn cipher_idx(c: &CipherChoice) -> u8 {
    match c {
        CipherChoice::ChaChaPoly => 0,
        CipherChoice::AESGCM => 1,
        _ => 2,
    }
}
impl CryptoResolver for ChoiceStub {
    fn resolve_rng(&self) -> Option<Box<dyn Random>> {
        None
    }
    fn resolve_dh(&self, c: &DHChoice) -> Option<Box<dyn Dh>> {
        (self.dh & (1 << dh_idx(c)) != 0).then(|| Box::new(TagDh(self.tag)) as Box<dyn Dh>)
    }
    fn resolve_hash(&self, c: &HashChoice) -> Option<Box<dyn Hash>> {
        (self.hash & (1 << hash_idx(c)) != 0).then(|| Box::new(TagHash(self.tag)) as Box<dyn Hash>)
    }
    fn resolve_cipher(&self, c: &CipherChoice) -> Option<Box<dyn Cipher>> {
        (self.cipher & (1 << cipher_idx(c)) != 0).then(|| Box::new(TagCipher(self.tag)) as Box<dyn Cipher>)
    }
}

/// Resolution is a pure function of (member availability, choice): the answer to a query must not depend
/// on the queries made before it on the same FallbackResolver. Every sequence of three queries of one kind
/// over its choices, for every pair of per-choice availability masks of the two members.
fn fallback_sequences(ctx: &Ctx) {
    let dhs = [DHChoice::Curve25519, DHChoice::Curve448, DHChoice::P256];
    let hs = [HashChoice::SHA256, HashChoice::SHA512, HashChoice::Blake2s, HashChoice::Blake2b];
    let cs = [CipherChoice::ChaChaPoly, CipherChoice::AESGCM, CipherChoice::XChaChaPoly];
    let mut n = 0u64;
    for kind in 0..3usize {
        let nchoices = [3usize, 4, 3][kind];
        for ma in 0..(1u8 << nchoices) {
            for mb in 0..(1u8 << nchoices) {
                for seq in 0..nchoices.pow(3) {
                    let q = [seq % nchoices, (seq / nchoices) % nchoices, seq / (nchoices * nchoices)];
                    let mk = |m: u8, tag: &'static str| -> BoxedCryptoResolver {
                        Box::new(ChoiceStub { dh: if kind == 0 { m } else { 0 }, hash: if kind == 1 { m } else { 0 }, cipher: if kind == 2 { m } else { 0 }, tag })
                    };
                    let res = FallbackResolver::new(mk(ma, "A"), mk(mb, "B"));
                    for (step, c) in q.iter().enumerate() {
                        let got: Option<String> = match kind {
                            0 => res.resolve_dh(&dhs[*c]).map(|x| x.name().to_string()),
                            1 => res.resolve_hash(&hs[*c]).map(|x| x.name().to_string()),
                            _ => res.resolve_cipher(&cs[*c]).map(|x| x.name().to_string()),
                        };
                        let want = if ma & (1 << c) != 0 { Some("A".to_string()) } else if mb & (1 << c) != 0 { Some("B".to_string()) } else { None };
                        n += 1;
                        if got != want {
                            ctx.violation(
                                format!("FallbackResolver's answer depends on earlier queries on the same instance ({})", ["dh", "hash", "cipher"][kind]),
                                format!("masks {ma:04b}/{mb:04b}, query sequence {q:?}, query {step}: got {got:?} want {want:?}"),
                                json!({"kind": "fallback", "seq": true}),
                            );
                            break;
                        }
                    }
                }
            }
        }
    }
    ctx.count("fallback_query_sequence_answers", n);
    ctx.add(&ctx.evaluations, n);
    ctx.add(&ctx.nontrivial, n);
}

/// `slack`: None = comfortably large buffers; Some((kw, kr)) = every output buffer exactly as large as needed plus
/// kw (writes; handshake writes get 16 more, which snow asks for) / kr (reads) - the backends branch on the size
/// of the output buffer, and what one backend accepts the other must accept too
pub fn check_wire(p: &Proto, mode: Mode, slack: Option<(isize, isize)>) -> (Vec<(String, String, Config, Vec<Op>)>, u64) {
    check_wire_with(p, mode, slack, false)
}

/// `scripted`: ephemeral keys are generated from the resolver's random source (a scripted stream) instead of being
/// fixed: whichever member provides the DH function, the keys must come from the resolved random source
pub fn check_wire_with(p: &Proto, mode: Mode, slack: Option<(isize, isize)>, scripted: bool) -> (Vec<(String, String, Config, Vec<Op>)>, u64) {
    check_wire_full(p, mode, slack, scripted, false)
}

/// `long`: a 200-byte prologue and handshake payloads of 150 / 128 / 127 / 300 bytes - inputs longer than a hash
/// block reach the hash objects in one piece (a backend that buffers short inputs must keep the order)
pub fn check_wire_full(p: &Proto, mode: Mode, slack: Option<(isize, isize)>, scripted: bool, long: bool) -> (Vec<(String, String, Config, Vec<Op>)>, u64) {
    let mut ops = ops_for(p, mode);
    if let Some((kw, kr)) = slack {
        ops = ops
            .into_iter()
            .map(|op| match op {
                Op::HsWrite { side, plen, .. } => Op::HsWrite { side, plen, cap: Cap::NeedPlus(16 + kw) },
                Op::HsRead { side, msg, .. } => Op::HsRead { side, msg, cap: Cap::NeedPlus(kr) },
                Op::TWrite { side, plen, .. } => Op::TWrite { side, plen, cap: Cap::NeedPlus(kw) },
                Op::TRead { side, msg, .. } => Op::TRead { side, msg, cap: Cap::NeedPlus(kr) },
                Op::SWrite { side, nonce, plen, .. } => Op::SWrite { side, nonce, plen, cap: Cap::NeedPlus(kw) },
                Op::SRead { side, nonce, msg, .. } => Op::SRead { side, nonce, msg, cap: Cap::NeedPlus(kr) },
                o => o,
            })
            .collect();
    }
    let mut base = Config::honest(p, 0);
    base.crypto_oracle = false;
    if long {
        base.prologue = [vec![0x6c; 200], vec![0x6c; 200]];
        let mut k = 0;
        for op in ops.iter_mut() {
            if let Op::HsWrite { plen, .. } = op {
                *plen = [150usize, 128, 127, 300][k % 4];
                k += 1;
            }
        }
    }
    if scripted {
        base.eph = [crate::exec::Eph::Scripted(21), crate::exec::Eph::Scripted(1021)];
    }
    let reference = Exec::run(&base, &ops);
    let mut v = vec![];
    if !reference.steps.iter().all(|s| s.real.is_ok()) {
        return (v, 0); // the all-default session itself fails: C02's business
    }
    let rw = wires(&reference);
    let mut n = 0;
    for bi in ALL_BACKENDS {
        for br in ALL_BACKENDS {
            if bi == Backend::Default && br == Backend::Default {
                continue;
            }
            let mut c = base.clone();
            c.backend = [bi, br];
            let e = Exec::run(&c, &ops);
            n += 1;
            if let Some(b) = &e.build_err {
                v.push(("a backend combination cannot build a name its members support".into(), format!("{} {bi:?}/{br:?}: {b}", p.name), c.clone(), ops.clone()));
                continue;
            }
            if let Some((k, s)) = e.steps.iter().enumerate().find(|(_, s)| !s.real.is_ok()) {
                v.push((format!("sessions with mixed backends do not interoperate ({} fails)", sess::op_kind(&s.op).split('(').next().unwrap_or("")), format!("{} {bi:?}/{br:?}: step {k} {:?} -> {}", p.name, s.op, s.real.short()), c.clone(), ops.clone()));
                continue;
            }
            if wires(&e) != rw {
                v.push(("the choice of backend is observable on the wire (bytes differ from the default backend's)".into(), format!("{} {bi:?}/{br:?}", p.name), c.clone(), ops.clone()));
            }
            // ... nor at the receiving end: what every read returns (length and payload) is what it returns in the
            // all-default session
            if let Some((k, (a, b))) = e.steps.iter().zip(&reference.steps).enumerate().find(|(_, (a, b))| matches!(a.op, Op::HsRead { .. } | Op::TRead { .. } | Op::SRead { .. }) && a.real != b.real) {
                v.push(("the choice of backend is observable in what a read returns (differs from the default backend's result)".into(), format!("{} {bi:?}/{br:?}: step {k} {:?} -> {} (default backend: {})", p.name, a.op, a.real.short(), b.real.short()), c.clone(), ops.clone()));
            }
        }
    }
    (v, n)
}

pub fn run(tier: Tier) -> i32 {
    let ctx = Ctx::new("C20", tier, "model_checking");
    // the whole thorough product costs ~10 s: both tiers run it
    let quick = false;
    // (the full product costs well under a minute: the quick tier runs it too)
    let thorough = true;
    ctx.set_rule("wire part: every protocol name both backends serve (25519 x {ChaChaPoly, AESGCM} x {SHA256, SHA512}; BLAKE2 / XChaChaPoly / P256 names through the fallback) x all 9 assignments of {Default, Fallback(Ring, Default), Fallback(Default, Ring)} to the two endpoints, session = handshake + transport traffic + synchronised rekeys + more traffic, stateful and stateless, with comfortably large buffers and (every 4th name) with output buffers of exactly the needed size plus {0,1,8,15,16,17} bytes: identical bytes to the all-default session and every step Ok; every 6th name also with ephemerals generated from a scripted random source instead of fixed ones, every 3rd with a 200-byte prologue and handshake payloads of 127..300 bytes. built-in part: DefaultResolver and RingResolver answer Some exactly for their documented primitives and what they hand out is the named primitive (name + one known answer against the reference). fallback part: complete truth table of FallbackResolver over tagged stub resolvers (16 x 16 availability masks, nesting depth 2 on either side): Some iff a member provides the primitive, and the first member's; plus every sequence of three queries of one kind on the same instance over per-choice availability masks (the answer must not depend on earlier queries)");
    fallback_table(&ctx);
    builtin_table(&ctx);
    let mut names: Vec<Proto> = vec![];
    for c in [CipherAlg::ChaChaPoly, CipherAlg::AesGcm] {
        for h in [HashAlg::Sha256, HashAlg::Sha512] {
            names.extend(patterns::all_protos_for_suite(DhAlg::X25519, c, h));
        }
    }
    // names only the fallback can complete
    for (d, c, h) in [(DhAlg::X25519, CipherAlg::ChaChaPoly, HashAlg::Blake2s), (DhAlg::X25519, CipherAlg::AesGcm, HashAlg::Blake2b), (DhAlg::X25519, CipherAlg::XChaChaPoly, HashAlg::Sha256), (DhAlg::P256, CipherAlg::AesGcm, HashAlg::Sha512)] {
        if quick {
            names.extend(patterns::base_patterns().iter().map(|b| Proto::new(b, &[], d, c, h).unwrap()));
        } else {
            names.extend(patterns::all_protos_for_suite(d, c, h));
        }
    }
    ctx.count("names", names.len() as u64);
    names.par_iter().enumerate().for_each(|(k, p)| {
        let modes: Vec<Mode> = if quick { vec![if k % 2 == 0 { Mode::TT } else { Mode::SS }] } else { vec![Mode::TT, Mode::SS] };
        let mut runs: Vec<(Mode, Option<(isize, isize)>)> = modes.iter().map(|m| (*m, None)).collect();
        // exactly sized and slightly larger buffers: every 4th name, five slack pairs
        if thorough || k % 4 == 0 {
            for sl in [(0isize, 0isize), (1, 1), (8, 15), (16, 16), (17, 5)] {
                runs.push((if (k / 4) % 2 == 0 { Mode::TT } else { Mode::SS }, Some(sl)));
            }
        }
        let scripted_too = k % 6 == 0;
        for (m, sl) in runs {
            let mut res = vec![check_wire(p, m, sl)];
            if scripted_too && sl.is_none() {
                res.push(check_wire_with(p, m, None, true));
            }
            if sl.is_none() && k % 3 == 1 {
                res.push(check_wire_full(p, m, None, false, true));
            }
            for (v, n) in res {
            ctx.add(&ctx.evaluations, n);
            ctx.add(&ctx.nontrivial, n);
            ctx.add(&ctx.transitions, n * 30);
            ctx.add(&ctx.traces, n);
            for (sig, d, cfg, ops) in v {
                ctx.violation(sig, d, sess::case_json(&cfg, &ops));
            }
            }
        }
    });
    ctx.states.store(ctx.evaluations.load(std::sync::atomic::Ordering::Relaxed), std::sync::atomic::Ordering::Relaxed);
    ctx.sample(json!({"name": names[10].name, "backends": ["Ring", "DefaultRing"], "ops": ops_for(&names[10], Mode::TT)}));
    ctx.sample(json!({"fallback": "FallbackResolver(Stub{mask 0b0101, tag A}, Stub{mask 0b1111, tag B}) -> rng A, dh B, hash A, cipher B"}));
    ctx.assume("inputs as in C01's default vector; the differential oracle is the all-default session of the same inputs");
    *ctx.exhaustive.lock().unwrap() = Some(true);
    ctx.finish()
}

pub fn replay(case: &serde_json::Value) -> Result<(), String> {
    if case["kind"] == "builtin" {
        let ctx = Ctx::new("C20", Tier::Quick, "model_checking");
        builtin_table(&ctx);
        return match ctx.violations.lock().unwrap().first() {
            Some(v) => Err(format!("{}: {}", v.signature, v.detail)),
            None => Ok(()),
        };
    }
    if case["kind"] == "fallback" {
        // re-run the whole (tiny) table
        let ctx = Ctx::new("C20", Tier::Quick, "model_checking");
        fallback_table(&ctx);
        return match ctx.violations.lock().unwrap().first() {
            Some(v) => Err(format!("{}: {}", v.signature, v.detail)),
            None => Ok(()),
        };
    }
    let (cfg, ops) = sess::case_from_json(case).ok_or("bad case")?;
    let mut base = cfg.clone();
    base.backend = [Backend::Default, Backend::Default];
    let r = Exec::run(&base, &ops);
    let e = Exec::run(&cfg, &ops);
    if let Some(b) = &e.build_err {
        return Err(b.clone());
    }
    if let Some((k, s)) = e.steps.iter().enumerate().find(|(_, s)| !s.real.is_ok()) {
        return Err(format!("step {k} {:?} -> {}", s.op, s.real.short()));
    }
    if wires(&e) != wires(&r) {
        return Err("bytes differ from the all-default session".into());
    }
    Ok(())
}
