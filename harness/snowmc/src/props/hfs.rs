//! The hfs (hybrid forward secrecy, Kyber1024) build: a different name parser and different
//! handshake token lists. Only what does not need replay determinism is checked here (Kyber key
//! generation uses PQClean's own randomness, a source the harness cannot own): C13 parsing,
//! C02 agreement of honest sessions, C10 totality. Evidence goes to evidence/<id>.hfs.json and is
//! summarised into the main evidence file by the main run.
#![cfg(feature = "hfs")]

use crate::{
    ctx::{Ctx, Tier},
    exec::{key_bytes, panic_msg, psk_bytes},
};
use rayon::prelude::*;
use refnoise::patterns::{base_patterns, PATTERN_NAMES};
use serde_json::json;
use snow::{Builder, HandshakeState};
use std::panic::{catch_unwind, AssertUnwindSafe};

pub fn c13(tier: Tier) -> i32 {
    let ctx = Ctx::new("C13.hfs", tier, "model_checking");
    ctx.set_rule("hfs build: every string parsed by snow (hfs name parser) and by the reference recogniser with the hfs grammar (modifier hfs, DH field dh+Kyber1024, KEM present iff hfs): product of patterns x modifier lists over {hfs, psk0, psk1, fallback} (length <= 3, every order) x DH/KEM field forms x ciphers x hashes, plus all single-edit mutations of 200 of them");
    let items = ["hfs", "psk0", "psk1", "fallback"];
    let mut lists: Vec<String> = vec![String::new()];
    let mut cur: Vec<Vec<usize>> = vec![vec![]];
    for _ in 0..3 {
        let mut next = vec![];
        for l in &cur {
            for i in 0..items.len() {
                if !l.contains(&i) {
                    let mut m = l.clone();
                    m.push(i);
                    lists.push(m.iter().map(|k| items[*k]).collect::<Vec<_>>().join("+"));
                    next.push(m);
                }
            }
        }
        cur = next;
    }
    let dhf = ["25519", "448", "P256", "25519+Kyber1024", "448+Kyber1024", "P256+Kyber1024", "25519+Kyber512", "25519+", "+Kyber1024", "25519+Kyber1024+x", "Kyber1024"];
    let mut names = vec![];
    for p in PATTERN_NAMES {
        for l in &lists {
            for d in dhf {
                for c in ["ChaChaPoly", "AESGCM", "XChaChaPoly"] {
                    names.push(format!("Noise_{p}{l}_{d}_{c}_SHA256"));
                }
                names.push(format!("Noise_{p}{l}_{d}_AESGCM_BLAKE2b"));
            }
        }
    }
    let acc = std::sync::atomic::AtomicU64::new(0);
    let rej = std::sync::atomic::AtomicU64::new(0);
    let eval = |s: &str| {
        ctx.add(&ctx.evaluations, 1);
        match super::c13::judge(s) {
            Ok("accepted") => {
                acc.fetch_add(1, std::sync::atomic::Ordering::Relaxed);
            },
            Ok("rejected") => {
                rej.fetch_add(1, std::sync::atomic::Ordering::Relaxed);
            },
            Ok(_) => {},
            Err((sig, d)) => ctx.violation(format!("hfs build: {sig}"), d, json!({"kind": "name", "name": s})),
        }
    };
    names.par_iter().for_each(|s| eval(s));
    let seeds: Vec<&String> = names.iter().step_by((names.len() / 200).max(1)).collect();
    seeds.par_iter().for_each(|s| {
        let chars: Vec<char> = s.chars().collect();
        for i in 0..chars.len() {
            let mut d = chars.clone();
            d.remove(i);
            eval(&d.iter().collect::<String>());
            for a in "_+hfsKyber1024\u{e9}".chars() {
                let mut d = chars.clone();
                d[i] = a;
                eval(&d.iter().collect::<String>());
                let mut d = chars.clone();
                d.insert(i, a);
                eval(&d.iter().collect::<String>());
            }
        }
    });
    let ev = ctx.evaluations.load(std::sync::atomic::Ordering::Relaxed);
    ctx.states.store(ev, std::sync::atomic::Ordering::Relaxed);
    ctx.transitions.store(ev, std::sync::atomic::Ordering::Relaxed);
    ctx.traces.store(ev, std::sync::atomic::Ordering::Relaxed);
    let (a, r) = (acc.load(std::sync::atomic::Ordering::Relaxed), rej.load(std::sync::atomic::Ordering::Relaxed));
    ctx.nontrivial.store(a.min(r) * 2, std::sync::atomic::Ordering::Relaxed);
    ctx.count("accepted_by_both", a);
    ctx.count("rejected_by_both", r);
    ctx.sample(json!({"accept": "Noise_NNhfs_25519+Kyber1024_ChaChaPoly_SHA256", "reject": ["Noise_NNhfs_25519_ChaChaPoly_SHA256", "Noise_NN_25519+Kyber1024_ChaChaPoly_SHA256"]}));
    ctx.assume("the hfs grammar is snow's unstable extension: modifier `hfs`, DH field `dh+Kyber1024`, a KEM is named iff hfs is present");
    ctx.finish()
}

fn hfs_names() -> Vec<(String, Vec<u8>, String)> {
    // (name, psk list, base pattern): interactive patterns only (hfs + one-way is rejected at build)
    let mut v = vec![];
    for (k, b) in base_patterns().iter().enumerate() {
        if b.is_oneway() {
            continue;
        }
        let (c, h) = ([("ChaChaPoly", "SHA256"), ("AESGCM", "BLAKE2b"), ("XChaChaPoly", "SHA512")])[k % 3];
        v.push((format!("Noise_{}hfs_25519+Kyber1024_{c}_{h}", b.name), vec![], b.name.clone()));
        let p = (k % (b.msgs.len() + 1)) as u8;
        v.push((format!("Noise_{}hfs+psk{p}_25519+Kyber1024_{c}_{h}", b.name), vec![p], b.name.clone()));
        v.push((format!("Noise_{}psk{p}+hfs_P256+Kyber1024_{c}_{h}", b.name), vec![p], b.name.clone()));
    }
    v
}

fn build_pair(name: &str, psks: &[u8], base: &str) -> Result<(HandshakeState, HandshakeState), String> {
    let pat = base_patterns().into_iter().find(|p| p.name == base).unwrap();
    let dh = if name.contains("P256") { refnoise::DhAlg::P256 } else { refnoise::DhAlg::X25519 };
    let sk = [key_bytes(1), key_bytes(2)];
    let pk = [dh.pubkey(&sk[0]).unwrap(), dh.pubkey(&sk[1]).unwrap()];
    let store: Vec<[u8; 32]> = (0..10).map(|i| psk_bytes(i, 0)).collect();
    let mk = |side: usize| -> Result<HandshakeState, snow::Error> {
        let init = side == 0;
        let mut b = Builder::new(name.parse()?).prologue(b"hfs")?;
        if pat.role_uses_own_static(init) {
            b = b.local_private_key(&sk[side])?;
        }
        if pat.role_needs_remote_static(init) {
            b = b.remote_public_key(&pk[1 - side])?;
        }
        for p in psks {
            b = b.psk(*p, &store[usize::from(*p)])?;
        }
        if init {
            b.build_initiator()
        } else {
            b.build_responder()
        }
    };
    match catch_unwind(AssertUnwindSafe(|| (mk(0), mk(1)))) {
        Ok((Ok(a), Ok(b))) => Ok((a, b)),
        Ok((a, b)) => Err(format!("build failed: {:?} / {:?}", a.err(), b.err())),
        Err(p) => Err(format!("build panicked: {}", panic_msg(p))),
    }
}

pub fn c02(tier: Tier) -> i32 {
    let ctx = Ctx::new("C02.hfs", tier, "model_checking");
    ctx.set_rule("hfs build: for every interactive pattern with the hfs modifier (psk-less, hfs+pskN, pskN+hfs with P-256; 3 cipher/hash pairs) an honest session: completes after exactly #messages messages, payloads (lengths 0, 1, 700) returned intact, equal handshake hashes, transport messages both ways in stateful and stateless mode; one-way patterns with hfs are rejected at build time");
    let names = hfs_names();
    names.par_iter().for_each(|(name, psks, base)| {
        for plen in [0usize, 1, 700] {
            ctx.add(&ctx.evaluations, 1);
            let r = catch_unwind(AssertUnwindSafe(|| -> Result<(), String> {
                let (mut i, mut r) = build_pair(name, psks, base)?;
                let n = base_patterns().into_iter().find(|p| &p.name == base).unwrap().msgs.len();
                let mut buf = vec![0u8; 65535];
                let mut out = vec![0u8; 65535];
                let payload = vec![0x5a; plen];
                for k in 0..n {
                    let (w, rd) = if k % 2 == 0 { (&mut i, &mut r) } else { (&mut r, &mut i) };
                    if w.is_handshake_finished() {
                        return Err(format!("finished before message {k}"));
                    }
                    let l = w.write_message(&payload, &mut buf).map_err(|e| format!("write {k}: {e:?}"))?;
                    let m = rd.read_message(&buf[..l], &mut out).map_err(|e| format!("read {k}: {e:?}"))?;
                    if out[..m] != payload[..] {
                        return Err(format!("payload {k} not returned intact"));
                    }
                }
                if !(i.is_handshake_finished() && r.is_handshake_finished()) {
                    return Err("not finished after the last message".into());
                }
                if i.get_handshake_hash() != r.get_handshake_hash() {
                    return Err("handshake hashes differ".into());
                }
                let (mut ti, mut tr) = (i.into_transport_mode().map_err(|e| format!("{e:?}"))?, r.into_transport_mode().map_err(|e| format!("{e:?}"))?);
                for round in 0..3 {
                    let l = ti.write_message(&payload, &mut buf).map_err(|e| format!("t-write {e:?}"))?;
                    let m = tr.read_message(&buf[..l], &mut out).map_err(|e| format!("t-read {round}: {e:?}"))?;
                    if out[..m] != payload[..] {
                        return Err("transport payload differs".into());
                    }
                    let l = tr.write_message(b"pong", &mut buf).map_err(|e| format!("t-write {e:?}"))?;
                    ti.read_message(&buf[..l], &mut out).map_err(|e| format!("t-read back {round}: {e:?}"))?;
                }
                Ok(())
            }));
            match r {
                Ok(Ok(())) => ctx.add(&ctx.nontrivial, 1),
                Ok(Err(e)) => ctx.violation("hfs build: an honest hfs session does not complete and agree", format!("{name} payload {plen}: {e}"), json!({"kind": "hfs-session", "name": name})),
                Err(p) => ctx.violation(format!("hfs build: honest hfs session panicked ({})", panic_msg(p)), name.clone(), json!({"kind": "hfs-session", "name": name})),
            }
        }
    });
    // honest sessions with local mistakes: before every step a failing call (write into a buffer one byte
    // short / read of the message with its last bit flipped / read into an empty payload buffer), then the
    // genuine step - the session must still complete and agree (Kyber keys are fresh per attempt, so only
    // completion and agreement are judged, not bytes)
    names.par_iter().for_each(|(name, psks, base)| {
        ctx.add(&ctx.evaluations, 1);
        let r = catch_unwind(AssertUnwindSafe(|| -> Result<(), String> {
            let n = base_patterns().into_iter().find(|p| &p.name == base).unwrap().msgs.len();
            let mut buf = vec![0u8; 65535];
            let mut out = vec![0u8; 65535];
            // message lengths are fixed by the name: learn them from a clean session first
            let lens: Vec<usize> = {
                let (mut i, mut r) = build_pair(name, psks, base)?;
                let mut v = vec![];
                for k in 0..n {
                    let (w, rd) = if k % 2 == 0 { (&mut i, &mut r) } else { (&mut r, &mut i) };
                    let l = w.write_message(b"hfs-payload", &mut buf).map_err(|e| format!("clean write {k}: {e:?}"))?;
                    rd.read_message(&buf[..l], &mut out).map_err(|e| format!("clean read {k}: {e:?}"))?;
                    v.push(l);
                }
                v
            };
            let (mut i, mut r) = build_pair(name, psks, base)?;
            for k in 0..n {
                let (w, rd) = if k % 2 == 0 { (&mut i, &mut r) } else { (&mut r, &mut i) };
                let mut probe = vec![0u8; 65535];
                let l = {
                    // failing attempts first: every buffer from empty up to one byte short, at a spread of sizes
                    // (fails at the first token, in the middle of the Kyber fields, and at the payload)
                    let need = lens[k];
                    let mut caps = vec![0usize, 5, 31, 32, 48, need / 2, need.saturating_sub(17), need - 12, need - 1];
                    caps.retain(|c| *c < need);
                    caps.dedup();
                    for cap in caps {
                        let mut small = vec![0u8; cap];
                        if w.write_message(b"hfs-payload", &mut small).is_ok() {
                            return Err(format!("write {k} succeeded into {cap} bytes although the message needs {need}"));
                        }
                    }
                    let l = w.write_message(b"hfs-payload", &mut probe).map_err(|e| format!("write {k} after failed attempts: {e:?}"))?;
                    if l != need {
                        return Err(format!("write {k} after failed attempts produced {l} bytes, a clean session {need}"));
                    }
                    l
                };
                buf[..l].copy_from_slice(&probe[..l]);
                let mut bad = buf[..l].to_vec();
                bad[l - 1] ^= 1;
                // a message too short for its fixed fields always fails; from the second message on every
                // pattern has mixed a DH result, so a flipped bit must fail as well (the first message may be unkeyed)
                if rd.read_message(&buf[..10], &mut out).is_ok() {
                    return Err(format!("read {k} accepted a 10-byte message"));
                }
                if k >= 1 && rd.read_message(&bad, &mut out).is_ok() {
                    return Err(format!("read {k} accepted a message with its last bit flipped"));
                }
                if k >= 1 {
                    for cut in [l - 1, l - 12, l / 2, 48, 33] {
                        if cut < l && rd.read_message(&buf[..cut], &mut out).is_ok() {
                            return Err(format!("read {k} accepted the message truncated to {cut} of {l} bytes"));
                        }
                    }
                    let mut mid = buf[..l].to_vec();
                    mid[l / 2] ^= 0x40;
                    if rd.read_message(&mid, &mut out).is_ok() {
                        return Err(format!("read {k} accepted the message with a bit flipped in the middle"));
                    }
                }
                if rd.read_message(&buf[..l], &mut out[..0]).is_ok() {
                    return Err(format!("read {k} succeeded into an empty payload buffer"));
                }
                let m = rd.read_message(&buf[..l], &mut out).map_err(|e| format!("read {k} of the genuine message after failed reads: {e:?}"))?;
                if &out[..m] != b"hfs-payload" {
                    return Err(format!("payload {k} not returned intact"));
                }
            }
            if i.get_handshake_hash() != r.get_handshake_hash() {
                return Err("handshake hashes differ".into());
            }
            let (mut ti, mut tr) = (i.into_transport_mode().map_err(|e| format!("{e:?}"))?, r.into_transport_mode().map_err(|e| format!("{e:?}"))?);
            let l = ti.write_message(b"ping", &mut buf).map_err(|e| format!("{e:?}"))?;
            tr.read_message(&buf[..l], &mut out).map_err(|e| format!("transport read: {e:?}"))?;
            Ok(())
        }));
        match r {
            Ok(Ok(())) => ctx.add(&ctx.nontrivial, 1),
            Ok(Err(e)) => ctx.violation("hfs build: an hfs session with local failing calls and retries does not complete and agree", format!("{name}: {e}"), json!({"kind": "hfs-retry", "name": name})),
            Err(p) => ctx.violation(format!("hfs build: hfs session with retries panicked ({})", panic_msg(p)), name.clone(), json!({"kind": "hfs-retry", "name": name})),
        }
    });
    // hfs with a one-way pattern is invalid and must be rejected with an error at build time
    for p in ["N", "K", "X"] {
        let name = format!("Noise_{p}hfs_25519+Kyber1024_ChaChaPoly_SHA256");
        ctx.add(&ctx.evaluations, 1);
        if build_pair(&name, &[], p).is_ok() {
            ctx.violation("hfs build: hfs combined with a one-way pattern is accepted", name.clone(), json!({"kind": "hfs-oneway", "name": name}));
        }
    }
    let ev = ctx.evaluations.load(std::sync::atomic::Ordering::Relaxed);
    ctx.states.store(ev, std::sync::atomic::Ordering::Relaxed);
    ctx.transitions.store(ev * 12, std::sync::atomic::Ordering::Relaxed);
    ctx.traces.store(ev, std::sync::atomic::Ordering::Relaxed);
    ctx.sample(json!({"name": names[0].0, "payload": 700}));
    ctx.assume("Kyber1024 key generation uses PQClean's own randomness: runs are not replay-deterministic, only agreement is judged");
    ctx.finish()
}

pub fn c10(tier: Tier) -> i32 {
    let ctx = Ctx::new("C10.hfs", tier, "fault_enumeration");
    ctx.set_rule("hfs build: for every hfs name, every honest prefix of the handshake, write_message with output buffers of every length class (0, 1, around every 16/32/65-byte boundary up to 200, around the Kyber public key / ciphertext sizes 1568 +- 48, 3200, 65535, 70000) and read_message of the genuine message truncated at the same lengths; every call inside catch_unwind");
    let names = hfs_names();
    let mut caps: Vec<usize> = (0..200).collect();
    for c in [1568usize, 1600, 1616, 1568 + 65, 1568 + 32, 3136, 3200] {
        for d in 0..=48 {
            caps.push(c + d);
            caps.push(c.saturating_sub(d));
        }
    }
    caps.extend([65534, 65535, 65536, 70000]);
    caps.sort_unstable();
    caps.dedup();
    names.par_iter().for_each(|(name, psks, base)| {
        let n = base_patterns().into_iter().find(|p| &p.name == base).unwrap().msgs.len();
        for k in 0..n {
            // fresh pair advanced honestly to message k; failing calls leave the state untouched (C07), so the
            // same pair serves all probes of this position
            let Ok((mut i, mut r)) = build_pair(name, psks, base) else { return };
            let mut buf = vec![0u8; 70000];
            let mut out = vec![0u8; 70000];
            let mut ok = true;
            for j in 0..k {
                let (w, rd) = if j % 2 == 0 { (&mut i, &mut r) } else { (&mut r, &mut i) };
                ctx.add(&ctx.evaluations, 1);
                match catch_unwind(AssertUnwindSafe(|| w.write_message(b"x", &mut buf).and_then(|l| rd.read_message(&buf[..l], &mut out)))) {
                    Ok(Ok(_)) => {},
                    Ok(Err(_)) => ok = false,
                    Err(p) => {
                        ctx.violation(format!("hfs build: an honest handshake step panicked ({})", panic_msg(p)), format!("{name} message {j}"), json!({"kind": "hfs-honest", "name": name, "msg": j}));
                        ok = false;
                    },
                }
                if !ok {
                    break;
                }
            }
            if !ok {
                continue;
            }
            let (w, rd) = if k % 2 == 0 { (&mut i, &mut r) } else { (&mut r, &mut i) };
            for c in &caps {
                ctx.add(&ctx.evaluations, 1);
                let mut b = vec![0u8; *c];
                match catch_unwind(AssertUnwindSafe(|| w.write_message(b"payload", &mut b))) {
                    Err(p) => {
                        ctx.violation(format!("hfs build: HandshakeState::write_message panicked ({})", panic_msg(p)), format!("{name} message {k} buffer {c}"), json!({"kind": "hfs-write", "name": name, "msg": k, "cap": c}));
                        break;
                    },
                    Ok(Ok(_)) => break, // position advanced: the remaining (larger) buffers would be out of turn
                    Ok(Err(_)) => {},
                }
            }
            // reads of a genuine message truncated to every length class (a fresh writer produces it)
            if let Ok((mut i2, mut r2)) = build_pair(name, psks, base) {
                let mut good = true;
                for j in 0..k {
                    let (w2, rd2) = if j % 2 == 0 { (&mut i2, &mut r2) } else { (&mut r2, &mut i2) };
                    // (the same steps ran without a panic for the first pair)
                    good &= matches!(catch_unwind(AssertUnwindSafe(|| w2.write_message(b"x", &mut buf).and_then(|l| rd2.read_message(&buf[..l], &mut out)))), Ok(Ok(_)));
                }
                let (w2, rd2) = if k % 2 == 0 { (&mut i2, &mut r2) } else { (&mut r2, &mut i2) };
                if good {
                    // a panic of this full-size write was reported by the buffer sweep above
                    if let Ok(Ok(l)) = catch_unwind(AssertUnwindSafe(|| w2.write_message(b"payload", &mut buf))) {
                        for c in caps.iter().filter(|c| **c < l).chain([l + 1, 65536].iter()) {
                            ctx.add(&ctx.evaluations, 1);
                            let m: Vec<u8> = buf[..(*c).min(buf.len())].to_vec();
                            if let Err(p) = catch_unwind(AssertUnwindSafe(|| rd2.read_message(&m, &mut out))) {
                                ctx.violation(format!("hfs build: HandshakeState::read_message panicked ({})", panic_msg(p)), format!("{name} message {k} truncated to {c}"), json!({"kind": "hfs-read", "name": name, "msg": k, "len": c}));
                                break;
                            }
                        }
                    }
                }
            }
            let _ = rd;
        }
    });
    let ev = ctx.evaluations.load(std::sync::atomic::Ordering::Relaxed);
    ctx.states.store(ev, std::sync::atomic::Ordering::Relaxed);
    ctx.transitions.store(ev, std::sync::atomic::Ordering::Relaxed);
    ctx.traces.store(ev, std::sync::atomic::Ordering::Relaxed);
    ctx.nontrivial.store(ev, std::sync::atomic::Ordering::Relaxed);
    ctx.sample(json!({"name": names[1].0, "message": 0, "write buffer": 1590}));
    ctx.finish()
}
