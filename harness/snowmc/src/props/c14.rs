//! C14 Message framing: exact lengths, 65535-byte limit, no overrun (E1).
//! `pred` comes from the reference field map (public keys, a 16-byte tag per encrypted field,
//! payload); output buffers are canary-filled.

use crate::{
    ctx::{Ctx, Tier},
    exec::{Alter, Cap, Cat, Config, EClass, Expect, Msg, Op, Real, Side},
    sess::{self, Mode},
};
use rayon::prelude::*;
use refnoise::{patterns, state::overheads, CipherAlg, DhAlg, HashAlg, Proto};
use serde_json::json;

// C14 does not demand that a fitting call succeeds (that is C02): ExpectedOkGotErr is not judged here
// nor does the property say anything about the part of the caller's buffer beyond the returned length (scratch use of
// spare room is legitimate): Cat::Overrun is not judged
const CATS: [Cat; 4] = [Cat::OutLen, Cat::ExpectedErrGotOk, Cat::OutBytes, Cat::Panic];

/// probe ops for handshake message k (after an honest prefix of k messages)
fn probes(proto: &Proto, k: usize, thorough: bool) -> Vec<(Vec<Op>, &'static str)> {
    let ov = overheads(proto)[k];
    let max = 65535 - ov;
    let w = sess::writer(k);
    let r = w.peer();
    let mut out: Vec<(Vec<Op>, &'static str)> = vec![];
    let mut plens = vec![0usize, 1, 2, 15, 16, 17, 255, max - 2, max - 1, max, max + 1, max + 2, 65535, 65536];
    if thorough {
        plens.extend([63, 64, 65, 256, max - 17, max - 16, max - 15, max + 15, max + 16, max + 17, 66000]);
    }
    for pl in plens {
        let pred = ov + pl;
        let mut caps: Vec<usize> = vec![pred.saturating_sub(1), pred, pred + 1, pred + 15, pred + 16, pred + 17, 65535, 65551, 70000];
        if pl < 300 {
            caps.extend([0, 1, pred / 2]);
        }
        caps.sort_unstable();
        caps.dedup();
        for c in caps {
            out.push((vec![Op::HsWrite { side: w, plen: pl, cap: Cap::Exact(c) }], "write"));
        }
    }
    // read side: genuine message with a payload, then every kind of length damage
    for pl in [0usize, 1, 40] {
        let wr = Op::HsWrite { side: w, plen: pl, cap: Cap::Roomy };
        let g = Msg::Last(w);
        out.push((vec![wr.clone(), Op::HsRead { side: r, msg: g.clone(), cap: Cap::NeedPlus(0) }], "read exact buffer"));
        out.push((vec![wr.clone(), Op::HsRead { side: r, msg: g.clone(), cap: Cap::Roomy }], "read"));
        let total = ov + pl;
        let truncs: Vec<usize> = if thorough || total < 200 { (0..total).collect() } else { vec![0, 1, ov.saturating_sub(17), ov.saturating_sub(16), ov.saturating_sub(1), ov, total - 1] };
        for t in truncs {
            out.push((vec![wr.clone(), Op::HsRead { side: r, msg: Msg::Altered(Box::new(g.clone()), Alter::Trunc(t)), cap: Cap::Roomy }], "read truncated"));
        }
    }
    for len in [65535usize, 65536, 66000] {
        out.push((vec![Op::HsRead { side: r, msg: Msg::Garbage(len, 3), cap: Cap::Exact(70000) }], "read oversize"));
    }
    // a genuine maximum-size message read back
    out.push((vec![Op::HsWrite { side: w, plen: max, cap: Cap::Exact(65535 + 16) }, Op::HsRead { side: r, msg: Msg::Last(w), cap: Cap::NeedPlus(0) }], "read max"));
    out
}

fn transport_probes(oneway: bool) -> Vec<(Vec<Op>, &'static str)> {
    let mut out = vec![];
    for (w, stateless) in [(Side::I, false), (Side::I, true), (Side::R, false), (Side::R, true)] {
        if oneway && w == Side::R {
            continue;
        }
        let r = w.peer();
        for pl in [0usize, 1, 2, 65517, 65518, 65519, 65520, 65521, 65535, 65536] {
            for d in [-1isize, 0, 1, 16] {
                let cap = Cap::Exact(((pl + 16) as isize + d) as usize);
                out.push((vec![if stateless { Op::SWrite { side: w, nonce: 5, plen: pl, cap } } else { Op::TWrite { side: w, plen: pl, cap } }], "transport write"));
            }
        }
        for pl in [0usize, 1, 65519] {
            let wr = if stateless { Op::SWrite { side: w, nonce: 0, plen: pl, cap: Cap::Roomy } } else { Op::TWrite { side: w, plen: pl, cap: Cap::Roomy } };
            let rd = |m: Msg, cap: Cap| if stateless { Op::SRead { side: r, nonce: 0, msg: m, cap } } else { Op::TRead { side: r, msg: m, cap } };
            out.push((vec![wr.clone(), rd(Msg::Last(w), Cap::NeedPlus(0))], "transport read exact buffer"));
            for t in 0..=17usize {
                if t < pl + 16 {
                    out.push((vec![wr.clone(), rd(Msg::Altered(Box::new(Msg::Last(w)), Alter::Trunc(t)), Cap::Roomy)], "transport read truncated"));
                }
            }
        }
        for len in [65535usize, 65536, 66000] {
            let m = Msg::Garbage(len, 9);
            out.push((vec![if stateless { Op::SRead { side: r, nonce: 0, msg: m, cap: Cap::Exact(70000) } } else { Op::TRead { side: r, msg: m, cap: Cap::Exact(70000) } }], "transport read oversize"));
        }
    }
    out
}

/// Judge the probe steps (the last `n_probe` steps of the run).
pub fn judge(e: &crate::exec::Exec, first_probe: usize) -> Vec<(String, String)> {
    let mut v = vec![];
    for m in e.mism.iter().filter(|m| m.step >= first_probe && CATS.contains(&m.cat)) {
        v.push((sess::signature(e, m), format!("{}: {}", e.cfg.name, m.detail)));
    }
    for (k, s) in e.steps.iter().enumerate().skip(first_probe) {
        // a write that cannot fit the buffer or the 65535 limit fails with an *input* error
        let is_write = matches!(s.op, Op::HsWrite { .. } | Op::TWrite { .. } | Op::SWrite { .. });
        if let (true, Expect::Err(c), Real::Err(got)) = (is_write, &s.expect, &s.real) {
            if c == &vec![EClass::Input] && *got != EClass::Input {
                v.push((format!("over-long / non-fitting {} fails with {got:?} instead of an input error", sess::op_kind(&s.op).split('(').next().unwrap_or("")), format!("{}: step {k} {:?}", e.cfg.name, s.op)));
            }
        }
        if let Real::Ok(n, _) = &s.real {
            if *n > 65535 && is_write {
                v.push(("a write returned more than 65535 bytes".into(), format!("{}: step {k} {:?} -> Ok({n})", e.cfg.name, s.op)));
            }
            if *n > s.cap {
                v.push(("a call returned more bytes than the output buffer holds".into(), format!("{}: step {k} {:?} -> Ok({n}) into {} bytes", e.cfg.name, s.op, s.cap)));
            }
        }
    }
    v
}

pub fn run(tier: Tier) -> i32 {
    let ctx = Ctx::new("C14", tier, "model_checking");
    let thorough = !ctx.quick();
    ctx.set_rule("case = (handshake name, message index, payload length in {0,1,2,15..17,255,max-2..max+2,65535,65536}, output buffer in {pred-1,pred,pred+1,pred+15..17,65535,65551,70000,0,1}) for writes; genuine message with exact / roomy payload buffer, every truncation length, 65535/65536/66000-byte inputs for reads; the same for stateful and stateless transport. Oracle: returned length == pred (reference field map), <= 65535, <= buffer, Err(Input) when it cannot fit; reads of too short / too long messages fail; successful read returns len - overhead. non-trivial = probe executed after an honest prefix that succeeded");
    let mut names: Vec<Proto> = patterns::all_protos_for_suite(DhAlg::X25519, CipherAlg::ChaChaPoly, HashAlg::Sha256);
    for b in patterns::base_patterns() {
        names.push(Proto::new(&b, &[], DhAlg::P256, CipherAlg::AesGcm, HashAlg::Sha512).unwrap());
        if thorough {
            names.push(Proto::new(&b, &[], DhAlg::X25519, CipherAlg::XChaChaPoly, HashAlg::Blake2b).unwrap());
        }
    }
    if thorough {
        names.extend(patterns::all_protos_for_suite(DhAlg::P256, CipherAlg::XChaChaPoly, HashAlg::Blake2s));
    }
    // quick: the 64 KiB cases cost an AEAD over 64 KiB each; all names get the small-length probes,
    // every 4th name (and all base patterns) the large ones
    let cases: Vec<(Proto, usize, Vec<Op>, &'static str, bool)> = names
        .iter()
        .enumerate()
        .flat_map(|(idx, p)| {
            let heavy_ok = thorough || p.psks.is_empty() || idx % 4 == 0;
            let mut v = vec![];
            for k in 0..p.n_msgs() {
                for (ops, kind) in probes(p, k, thorough) {
                    let heavy = ops.iter().any(|o| matches!(o, Op::HsWrite { plen, .. } if *plen > 1000) || matches!(o, Op::HsRead { msg: Msg::Garbage(..), .. }));
                    if heavy && !heavy_ok {
                        continue;
                    }
                    v.push((p.clone(), k, ops, kind, false));
                }
            }
            if heavy_ok {
                for (ops, kind) in transport_probes(p.pattern.is_oneway()) {
                    v.push((p.clone(), p.n_msgs(), ops, kind, true));
                }
            }
            v
        })
        .collect();
    cases.par_iter().for_each(|(p, k, probe, kind, transport)| {
        let mut cfg = Config::honest(p, 0);
        cfg.crypto_oracle = false;
        let mut ops: Vec<Op> = sess::handshake_ops(p, &[0, 0, 0, 0]).into_iter().take(2 * k).collect();
        if *transport {
            let stateless = probe.iter().any(|o| matches!(o, Op::SWrite { .. } | Op::SRead { .. }));
            ops.extend(sess::convert_ops(if stateless { Mode::SS } else { Mode::TT }));
        }
        let first = ops.len();
        ops.extend(probe.iter().cloned());
        let e = sess::run(&cfg, &ops);
        ctx.add(&ctx.evaluations, 1);
        ctx.add(&ctx.transitions, e.steps.len() as u64);
        ctx.add(&ctx.traces, 1);
        if e.steps[..first].iter().all(|s| s.real.is_ok()) {
            ctx.add(&ctx.nontrivial, 1);
            ctx.count(kind, 1);
        } else {
            return; // broken honest prefix: C02's business
        }
        for (sig, d) in judge(&e, first) {
            ctx.violation(sig, d, json!({"kind": "exec", "config": cfg, "ops": ops, "first_probe": first}));
        }
    });
    // the length a read returns must not depend on how much room the caller's buffer has, whichever backend decrypts
    // (ring's ciphers take another code path when the buffer is shorter than the message): every handshake message and
    // transport messages of several sizes read into buffers with 0, 1, 8, 15, 16, 17 and 64 spare bytes, both backends
    {
        use crate::seam::Backend;
        let mut jobs = vec![];
        for backend in [Backend::Ring, Backend::Default] {
            for c in [CipherAlg::ChaChaPoly, CipherAlg::AesGcm] {
                for pat in ["NN", "XX", "IK", "N"] {
                    for spare in [0isize, 1, 8, 15, 16, 17, 64] {
                        for stateless in [false, true] {
                            jobs.push((backend, c, pat, spare, stateless));
                        }
                    }
                }
            }
        }
        ctx.count("read_buffer_room_cases", jobs.len() as u64);
        jobs.par_iter().for_each(|(backend, c, pat, spare, stateless)| {
            let b = patterns::base_patterns().into_iter().find(|x| x.name == *pat).unwrap();
            let p = Proto::new(&b, &[], DhAlg::X25519, *c, HashAlg::Sha256).unwrap();
            let mut cfg = Config::honest(&p, 0);
            cfg.crypto_oracle = false;
            cfg.backend = [*backend, *backend];
            let mut ops = vec![];
            for op in sess::handshake_ops(&p, &[3, 20, 0, 7]) {
                ops.push(match op {
                    Op::HsRead { side, msg, .. } => Op::HsRead { side, msg, cap: Cap::NeedPlus(*spare) },
                    o => o,
                });
            }
            ops.extend(sess::convert_ops(if *stateless { Mode::SS } else { Mode::TT }));
            let first = ops.len();
            let dirs: Vec<Side> = if p.pattern.is_oneway() { vec![Side::I] } else { vec![Side::I, Side::R] };
            let mut n = [0u64; 2];
            for pl in [0usize, 1, 5, 40, 300] {
                for w in &dirs {
                    let r = w.peer();
                    let k = n[w.idx()];
                    n[w.idx()] += 1;
                    if *stateless {
                        ops.push(Op::SWrite { side: *w, nonce: k, plen: pl, cap: Cap::Roomy });
                        ops.push(Op::SRead { side: r, nonce: k, msg: Msg::Last(*w), cap: Cap::NeedPlus(*spare) });
                    } else {
                        ops.push(Op::TWrite { side: *w, plen: pl, cap: Cap::Roomy });
                        ops.push(Op::TRead { side: r, msg: Msg::Last(*w), cap: Cap::NeedPlus(*spare) });
                    }
                }
            }
            let e = sess::run(&cfg, &ops);
            ctx.add(&ctx.evaluations, 1);
            ctx.add(&ctx.transitions, e.steps.len() as u64);
            ctx.add(&ctx.traces, 1);
            ctx.add(&ctx.nontrivial, 1);
            // the whole run is judged (handshake reads included): lengths returned by successful reads
            for (sig, d) in judge(&e, 0) {
                ctx.violation(sig, d, json!({"kind": "exec", "config": cfg, "ops": ops, "first_probe": 0}));
            }
            let _ = first;
        });
    }
    // "a read of a message longer than 65535 bytes fails" - also when the message is authentic: snow's own writer
    // never produces one, so it is sealed with the reference AEAD under the session key a non-conforming peer would
    // hold (65536, 65537 and 65600 bytes; at the limit, 65535, the same construction must be read back). Both
    // transport modes, both backends, three ciphers.
    {
        use crate::exec::{payload_bytes, Exec};
        use crate::seam::Backend;
        let mut jobs = vec![];
        for c in [CipherAlg::ChaChaPoly, CipherAlg::AesGcm, CipherAlg::XChaChaPoly] {
            for b in [Backend::Default, Backend::Ring] {
                for stateless in [false, true] {
                    for total in [65535usize, 65536, 65537, 65600] {
                        jobs.push((c, b, stateless, total));
                    }
                }
            }
        }
        ctx.count("authentic_oversize_message_cases", jobs.len() as u64);
        jobs.par_iter().for_each(|(c, b, stateless, total)| {
            let bp = patterns::base_patterns().into_iter().find(|x| x.name == "NN").unwrap();
            let p = Proto::new(&bp, &[], DhAlg::X25519, *c, HashAlg::Sha256).unwrap();
            let mut cfg = Config::honest(&p, 0);
            cfg.backend = [*b, *b];
            cfg.crypto_oracle = false;
            cfg.record = true;
            let mut e = Exec::new(&cfg);
            let mut ops = sess::handshake_ops(&p, &[0, 0, 0, 0]);
            ops.extend(sess::convert_ops(if *stateless { Mode::SS } else { Mode::TT }));
            for op in &ops {
                e.step(op);
            }
            if !e.steps.iter().all(|s| s.real.is_ok()) {
                return;
            }
            // the responder's receiving key (cipher object 1 = initiator -> responder)
            let Some(key) = e.logs[Side::R.idx()].current_key(1) else { return };
            let pt = payload_bytes(*total - 16, 0x5a);
            let ct = c.encrypt(&key, 0, &[], &pt);
            let read = if *stateless { Op::SRead { side: Side::R, nonce: 0, msg: Msg::Raw(ct), cap: Cap::Exact(70000) } } else { Op::TRead { side: Side::R, msg: Msg::Raw(ct), cap: Cap::Exact(70000) } };
            e.step(&read);
            ops.push(read);
            ctx.add(&ctx.evaluations, 1);
            ctx.add(&ctx.transitions, ops.len() as u64);
            ctx.add(&ctx.traces, 1);
            ctx.add(&ctx.nontrivial, 1);
            let st = e.steps.last().unwrap();
            let case = json!({"kind": "oversize", "cipher": c.name(), "backend": b, "stateless": stateless, "total": total});
            match (&st.real, *total > 65535) {
                (crate::exec::Real::Ok(n, _), true) => ctx.violation("a read of an (authentic) message longer than 65535 bytes succeeds", format!("{} {b:?} {}: {total} bytes -> Ok({n})", cfg.name, if *stateless { "stateless" } else { "stateful" }), case),
                (crate::exec::Real::Ok(n, got), false) => {
                    if *n != total - 16 || got[..] != pt[..] {
                        ctx.violation("a read of an authentic 65535-byte message does not return length minus overhead", format!("{} {b:?}: Ok({n})", cfg.name), case);
                    }
                },
                (crate::exec::Real::Panic(m), _) => ctx.violation("a read of an over-long message panicked", format!("{} {b:?}: {m}", cfg.name), case),
                // (that a message of exactly 65535 bytes must be accepted is C02 / C05's clause)
                _ => {},
            }
        });
    }
    ctx.states.store(cases.len() as u64, std::sync::atomic::Ordering::Relaxed);
    let (p0, k0, pr0, _, _) = &cases[3];
    ctx.sample(json!({"name": p0.name, "message": k0, "probe": pr0}));
    ctx.assume("the property does not demand success for an exactly fitting buffer: snow's rule of 16 spare bytes for clear payloads is accepted either way");
    ctx.assume("a read that cannot succeed may fail with any error");
    *ctx.exhaustive.lock().unwrap() = Some(false);
    ctx.finish()
}

pub fn replay(case: &serde_json::Value) -> Result<(), String> {
    if case["kind"] == "oversize" {
        // cheap: re-run the quick exploration and report its first violation
        return match std::panic::catch_unwind(|| run(Tier::Quick)) {
            Ok(0) => Ok(()),
            _ => Err(format!("the oversize-message part reports a violation again ({case})")),
        };
    }
    let (cfg, ops) = sess::case_from_json(case).ok_or("bad case")?;
    let first = case["first_probe"].as_u64().unwrap_or(0) as usize;
    let e = sess::run(&cfg, &ops);
    match judge(&e, first).first() {
        Some((s, d)) => Err(format!("{s}: {d}\n{}", sess::describe_steps(&e).join("\n"))),
        None => Ok(()),
    }
}
