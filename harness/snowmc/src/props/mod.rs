use crate::ctx::{machinery, Tier};
use serde_json::Value;

pub mod c01;
pub mod c02;
pub mod c03;
pub mod c04;
pub mod c05;
pub mod c06;
pub mod c07;
pub mod c08;
pub mod c09;
pub mod c10;
pub mod c11;
pub mod c11_tla;
pub mod c12;
pub mod c13;
pub mod c14;
pub mod c15;
pub mod c16;
pub mod c17;
pub mod c18;
pub mod c19;
pub mod c20;
pub mod common;
#[cfg(feature = "hfs")]
pub mod hfs;

pub fn run(id: &str, tier: Tier) -> i32 {
    #[cfg(feature = "hfs")]
    {
        // the hfs build only runs the parts that need the hfs name parser / token lists
        return match id {
            "C02" => hfs::c02(tier),
            "C10" => hfs::c10(tier),
            "C13" => hfs::c13(tier),
            _ => machinery(&format!("no hfs variant of {id}")),
        };
    }
    #[allow(unreachable_code)]
    match id {
        "C01" => c01::run(tier),
        "C02" => c02::run(tier),
        "C03" => c03::run(tier),
        "C04" => c04::run(tier),
        "C05" => c05::run(tier),
        "C06" => c06::run(tier),
        "C07" => c07::run(tier),
        "C08" => c08::run(tier),
        "C09" => c09::run(tier),
        "C10" => c10::run(tier),
        "C11" => c11::run(tier),
        "C12" => c12::run(tier),
        "C13" => c13::run(tier),
        "C14" => c14::run(tier),
        "C15" => c15::run(tier),
        "C16" => c16::run(tier),
        "C17" => c17::run(tier),
        "C18" => c18::run(tier),
        "C19" => c19::run(tier),
        "C20" => c20::run(tier),
        _ => machinery(&format!("no check for property {id}")),
    }
}

/// Re-execute a recorded violation twice without the explorer. Exit 1 if it reproduces.
pub fn replay(id: &str, path: &str) -> i32 {
    let text = std::fs::read_to_string(path).unwrap_or_else(|e| machinery(&format!("{path}: {e}")));
    let v: Value = serde_json::from_str(&text).unwrap_or_else(|e| machinery(&format!("{path}: {e}")));
    let case = &v["case"];
    let once = |_: u8| -> Result<(), String> {
        #[cfg(feature = "hfs")]
        {
            // hfs cases are cheap: re-run the hfs part of the property and report its first violation
            let code = std::panic::catch_unwind(|| run(id, Tier::Quick)).unwrap_or(1);
            return if code == 0 { Ok(()) } else { Err(format!("the hfs part of {id} reports a violation (details above; case: {})", case)) };
        }
        if case["kind"] == "uncaught-panic" {
            // the whole quick exploration is the replay: it stops at the same panic or it does not
            return match std::panic::catch_unwind(|| run(id, Tier::Quick)) {
                Ok(0) => Ok(()),
                Ok(_) => Err(format!("the quick exploration of {id} reports a violation")),
                Err(_) => Err(format!("a routine call into snow panicked again ({})", case["message"])),
            };
        }
        #[allow(unreachable_code)]
        match id {
            "C01" => c01::replay(case),
            "C02" => c02::replay(case),
            "C03" => c03::replay(case),
            "C04" => c04::replay(case),
            "C05" => c05::replay(case),
            "C06" => c06::replay(case),
            "C07" => c07::replay(case),
            "C08" => c08::replay(case),
            "C09" => c09::replay(case),
            "C10" => c10::replay(case),
            "C11" => c11::replay(case),
            "C12" => c12::replay(case),
            "C13" => c13::replay(case),
            "C14" => c14::replay(case),
            "C15" => c15::replay(case),
            "C16" => c16::replay(case),
            "C17" => c17::replay(case),
            "C18" => c18::replay(case),
            "C19" => c19::replay(case),
            "C20" => c20::replay(case),
            _ => machinery(&format!("no replay for property {id}")),
        }
    };
    let a = once(0);
    let b = once(1);
    if a != b {
        machinery(&format!("replay is not deterministic: {a:?} vs {b:?}"));
    }
    match a {
        Ok(()) => {
            println!("replay: property {id} holds on this case");
            0
        },
        Err(m) => {
            println!("replay: {m}");
            println!("VIOLATION property={id} replay={path}");
            1
        },
    }
}
