//! C07 Failed calls are no-ops (E1 fault enumeration along the honest run + E2 sequences).
//! Differential oracle, no hand-written expected value: with fixed ephemerals the run in which
//! failing calls were made must produce exactly the bytes of the run in which they were never
//! made, every retried / later honest call must succeed, and no public getter may change across
//! a failed call.

use super::common::*;
use crate::{
    ctx::{Ctx, Tier},
    engine::seqmc::{self, SeqSpec},
    exec::{APhase, Alter, Cap, Cat, Config, Exec, Msg, Op, Real, Side, WireMeta, SIDES},
    sess::{self, Mode},
};
use rayon::prelude::*;
use refnoise::{patterns, state::overheads, CipherAlg, DhAlg, HashAlg, Proto};
use serde_json::json;
use std::sync::Arc;

// (a call that panics does not *return* an error: that is C10's business)
const NOOP_CATS: [Cat; 1] = [Cat::NoOp];

#[derive(Clone, Debug)]
pub struct Fault {
    /// index in the honest op list before which the fault ops are inserted
    pub at: usize,
    pub ops: Vec<Op>,
    pub kind: &'static str,
    /// psk to leave out of the named side's configuration (restored by a SetPsk in `ops`)
    pub omit_psk: Option<(Side, usize)>,
}

pub fn honest(proto: &Proto) -> Vec<Op> {
    let dirs = [Side::I, Side::R, Side::I, Side::R, Side::I, Side::R];
    sess::full_session_ops(proto, &[2, 3, 4, 5], Mode::TT, &dirs, &[1, 2, 3, 4, 5, 6])
}

/// field boundaries (message offsets) of handshake message k for payload length plen
fn boundaries(proto: &Proto, k: usize, plen: usize) -> Vec<usize> {
    // walk the tokens with the pattern-level HasKey
    let is_psk = proto.pattern.has_psk();
    let publen = proto.dh.publen();
    let mut has_key = false;
    let mut out = vec![0usize];
    for (j, m) in proto.pattern.msgs.iter().enumerate() {
        let mut off = 0;
        for t in m {
            match t {
                refnoise::Tok::E => {
                    off += publen;
                    if is_psk {
                        has_key = true;
                    }
                    if j == k {
                        out.push(off);
                    }
                },
                refnoise::Tok::S => {
                    if j == k && has_key {
                        out.push(off + publen);
                    }
                    off += publen + if has_key { 16 } else { 0 };
                    if j == k {
                        out.push(off);
                    }
                },
                _ => has_key = true,
            }
        }
        if j == k {
            out.push(off + plen);
            out.push(off + plen + if has_key { 16 } else { 0 });
            break;
        }
    }
    out.sort_unstable();
    out.dedup();
    out
}

pub fn faults_for(proto: &Proto, exhaustive_lengths: bool, bit_stride: usize) -> Vec<Fault> {
    let hs_plens = [2usize, 3, 4, 5];
    let ov = overheads(proto);
    let n = proto.n_msgs();
    let mut f = vec![];
    for k in 0..n {
        let w = sess::writer(k);
        let r = w.peer();
        let plen = hs_plens[k];
        let need = ov[k] + plen;
        let (wpos, rpos) = (2 * k, 2 * k + 1);
        // ---- writer side
        let caps: Vec<usize> = if exhaustive_lengths {
            (0..need).collect()
        } else {
            let mut c: Vec<usize> = vec![0, 1, need - 1];
            for b in boundaries(proto, k, plen) {
                for d in [-1isize, 0, 1, 15, 16, 17] {
                    let v = b as isize + d;
                    if v >= 0 && (v as usize) < need {
                        c.push(v as usize);
                    }
                }
            }
            c.sort_unstable();
            c.dedup();
            c
        };
        for c in caps {
            f.push(Fault { at: wpos, ops: vec![Op::HsWrite { side: w, plen, cap: Cap::Exact(c) }], kind: "write into an undersized buffer", omit_psk: None });
        }
        f.push(Fault { at: wpos, ops: vec![Op::HsWrite { side: w, plen: 65535 - ov[k] + 1, cap: Cap::Exact(70000) }], kind: "write of an over-long payload", omit_psk: None });
        f.push(Fault { at: wpos, ops: vec![Op::HsWrite { side: r, plen, cap: Cap::Roomy }], kind: "out-of-turn write", omit_psk: None });
        f.push(Fault { at: wpos, ops: vec![Op::HsRead { side: w, msg: Msg::Garbage(need, 3), cap: Cap::Roomy }], kind: "out-of-turn read", omit_psk: None });
        for t in &proto.pattern.msgs[k] {
            if let refnoise::Tok::Psk(p) = t {
                let p = usize::from(*p);
                f.push(Fault { at: wpos, ops: vec![Op::HsWrite { side: w, plen, cap: Cap::Roomy }, Op::SetPsk { side: w, loc: p, klen: 32 }], kind: "write with a PSK not yet supplied", omit_psk: Some((w, p)) });
                f.push(Fault { at: rpos, ops: vec![Op::HsRead { side: r, msg: Msg::Last(w), cap: Cap::Roomy }, Op::SetPsk { side: r, loc: p, klen: 32 }], kind: "read with a PSK not yet supplied", omit_psk: Some((r, p)) });
            }
        }
        // ---- reader side (the genuine message has been written, is delivered afterwards)
        let genuine = Msg::Last(w);
        let alt = |a: Alter| Msg::Altered(Box::new(genuine.clone()), a);
        let mut bits: Vec<usize> = (0..need * 8).step_by(bit_stride).collect();
        bits.push(need * 8 - 1);
        for b in bits {
            f.push(Fault { at: rpos, ops: vec![Op::HsRead { side: r, msg: alt(Alter::FlipBit(b)), cap: Cap::Roomy }], kind: "read of a bit-flipped message", omit_psk: None });
        }
        let truncs: Vec<usize> = if exhaustive_lengths {
            (0..need).collect()
        } else {
            let mut c = vec![0, 1, need - 1];
            for b in boundaries(proto, k, plen) {
                for d in [-1isize, 0, 1] {
                    let v = b as isize + d;
                    if v >= 0 && (v as usize) < need {
                        c.push(v as usize);
                    }
                }
            }
            c.sort_unstable();
            c.dedup();
            c
        };
        for t in truncs {
            f.push(Fault { at: rpos, ops: vec![Op::HsRead { side: r, msg: alt(Alter::Trunc(t)), cap: Cap::Roomy }], kind: "read of a truncated message", omit_psk: None });
        }
        f.push(Fault { at: rpos, ops: vec![Op::HsRead { side: r, msg: alt(Alter::Extend(1, 0)), cap: Cap::Roomy }], kind: "read of an extended message", omit_psk: None });
        f.push(Fault { at: rpos, ops: vec![Op::HsRead { side: r, msg: Msg::Garbage(65536, 1), cap: Cap::Roomy }], kind: "read of an oversize message", omit_psk: None });
        f.push(Fault { at: rpos, ops: vec![Op::HsRead { side: r, msg: Msg::Garbage(need, 0), cap: Cap::Roomy }], kind: "read of an all-zero message", omit_psk: None });
        if k > 0 {
            // an earlier message of this session substituted
            f.push(Fault { at: rpos, ops: vec![Op::HsRead { side: r, msg: Msg::Wire(sess::writer(k - 1), (k - 1) / 2), cap: Cap::Roomy }], kind: "read of an earlier message", omit_psk: None });
        }
        for c in if exhaustive_lengths { (0..plen).collect::<Vec<_>>() } else { vec![0, plen - 1] } {
            f.push(Fault { at: rpos, ops: vec![Op::HsRead { side: r, msg: genuine.clone(), cap: Cap::Exact(c) }], kind: "read into an undersized payload buffer", omit_psk: None });
        }
        f.push(Fault { at: rpos, ops: vec![Op::HsWrite { side: r, plen, cap: Cap::Roomy }], kind: "out-of-turn write", omit_psk: None });
    }
    // ---- transport phase (ops after the 2n handshake ops, the 2 raw-split queries and the 2 conversions)
    let t0 = 2 * n + 4;
    let oneway = proto.pattern.is_oneway();
    let n_t = if oneway { 3 } else { 6 };
    for j in 0..n_t {
        let w = if oneway { Side::I } else { [Side::I, Side::R][j % 2] };
        let r = w.peer();
        let (wpos, rpos) = (t0 + 2 * j, t0 + 2 * j + 1);
        f.push(Fault { at: wpos, ops: vec![Op::TWrite { side: w, plen: 3, cap: Cap::NeedPlus(-1) }], kind: "transport write into an undersized buffer", omit_psk: None });
        f.push(Fault { at: wpos, ops: vec![Op::TWrite { side: w, plen: 65520, cap: Cap::Exact(70000) }], kind: "transport write of an over-long payload", omit_psk: None });
        f.push(Fault { at: rpos, ops: vec![Op::TRead { side: r, msg: Msg::Altered(Box::new(Msg::Last(w)), Alter::FlipLast), cap: Cap::Roomy }], kind: "transport read of a bit-flipped message", omit_psk: None });
        f.push(Fault { at: rpos, ops: vec![Op::TRead { side: r, msg: Msg::Altered(Box::new(Msg::Last(w)), Alter::FlipBit(0)), cap: Cap::Roomy }], kind: "transport read of a bit-flipped message", omit_psk: None });
        f.push(Fault { at: rpos, ops: vec![Op::TRead { side: r, msg: Msg::Last(w), cap: Cap::NeedPlus(-1) }], kind: "transport read into an undersized buffer", omit_psk: None });
        f.push(Fault { at: rpos, ops: vec![Op::TRead { side: r, msg: Msg::Garbage(15, 2), cap: Cap::Roomy }], kind: "transport read of a runt message", omit_psk: None });
        f.push(Fault { at: rpos, ops: vec![Op::TRead { side: r, msg: Msg::Garbage(65536, 2), cap: Cap::Roomy }], kind: "transport read of an oversize message", omit_psk: None });
        if !oneway {
            f.push(Fault { at: rpos, ops: vec![Op::TRead { side: w, msg: Msg::Last(w), cap: Cap::Roomy }], kind: "transport read of a reflected message", omit_psk: None });
        }
        // calls refused because the counter stands at the reserved value 2^64-1: the counter is moved there and back
        // with the explicit setters (which are not failed calls and are not judged), the refused call in between
        // must leave nothing behind
        let nth = (if oneway { j } else { j / 2 }) as u64;
        f.push(Fault { at: rpos, ops: vec![Op::SetRecvNonce { side: r, n: u64::MAX }, Op::TRead { side: r, msg: Msg::Last(w), cap: Cap::Roomy }, Op::SetRecvNonce { side: r, n: nth }], kind: "transport read at an exhausted counter", omit_psk: None });
        f.push(Fault { at: wpos, ops: vec![Op::SetSendNonce { side: w, n: u64::MAX }, Op::TWrite { side: w, plen: 3, cap: Cap::Roomy }, Op::SetSendNonce { side: w, n: nth }], kind: "transport write at an exhausted counter", omit_psk: None });
    }
    f
}

pub fn apply(honest: &[Op], faults: &[&Fault]) -> Vec<Op> {
    // insert from the back so that positions stay valid; equal positions keep their given order
    let mut ops = honest.to_vec();
    let mut fs: Vec<&&Fault> = faults.iter().collect();
    fs.sort_by_key(|f| std::cmp::Reverse(f.at));
    for f in fs {
        for (j, o) in f.ops.iter().enumerate() {
            ops.insert(f.at + j, o.clone());
        }
    }
    ops
}

fn wire_bytes(e: &Exec) -> [Vec<Vec<u8>>; 2] {
    [e.wires[0].iter().map(|w| w.bytes.clone()).collect(), e.wires[1].iter().map(|w| w.bytes.clone()).collect()]
}

/// Judge one faulted run against the clean run. Returns (signature, detail) list and whether any fault actually failed.
fn judge_against_clean(e: &Exec, clean: &[Vec<Vec<u8>>; 2], fault_steps: &[usize], kinds: &[&'static str]) -> (Vec<(String, String)>, bool) {
    let mut v = vec![];
    let kind = kinds.join(" + ");
    // (a call that panics did not "return an error": that is C10's clause, and nothing is said here about the state
    // it leaves behind)
    let failed: Vec<bool> = fault_steps.iter().map(|k| matches!(e.steps.get(*k).map(|s| &s.real), Some(Real::Err(_)))).collect();
    // a "fault" that did not fail (e.g. a flip in a clear field that is accepted, a SetPsk) is not a failed call:
    // C07 says nothing about it
    let set_psk_step = |k: &usize| matches!(e.steps.get(*k).map(|s| &s.op), Some(Op::SetPsk { .. } | Op::SetRecvNonce { .. } | Op::SetSendNonce { .. }));
    if fault_steps.iter().zip(&failed).any(|(k, f)| !*f && !set_psk_step(k)) {
        return (v, false);
    }
    for m in sess::filter(e, &NOOP_CATS) {
        v.push((format!("{:?} after {kind}", m.cat), m.detail.clone()));
    }
    for (k, s) in e.steps.iter().enumerate() {
        if !fault_steps.contains(&k) && !s.real.is_ok() {
            v.push((format!("{} fails after a failed call ({kind})", sess::op_kind(&s.op).split('(').next().unwrap_or("")), format!("step {k} {:?} -> {}", s.op, s.real.short())));
            break;
        }
    }
    if v.is_empty() {
        let got = wire_bytes(e);
        if &got != clean {
            v.push((format!("messages after the failed call differ from the run without it ({kind})"), "wire bytes differ".to_string()));
        }
    }
    (v, true)
}

pub fn cfg_for(proto: &Proto, faults: &[&Fault]) -> Config {
    let mut c = Config::honest(proto, 0);
    c.crypto_oracle = false;
    for f in faults {
        if let Some((s, p)) = f.omit_psk {
            c.psks[s.idx()][p] = None;
        }
    }
    c
}

fn check_name(ctx: &Ctx, proto: &Proto, exhaustive: bool, stride: usize, bound2: bool) {
    let h = honest(proto);
    let clean_cfg = cfg_for(proto, &[]);
    let clean = sess::run(&clean_cfg, &h);
    if clean.steps.iter().any(|s| !s.real.is_ok()) {
        // honest sessions failing is C02's business; nothing to compare against
        ctx.count("names_skipped_clean_run_failed", 1);
        return;
    }
    let clean_w = wire_bytes(&clean);
    let faults = faults_for(proto, exhaustive, stride);
    let run_case = |fs: &[&Fault]| {
        let cfg = cfg_for(proto, fs);
        let ops = apply(&h, fs);
        // positions of the fault steps in the faulted op list
        let mut steps = vec![];
        let mut sorted: Vec<&&Fault> = fs.iter().collect();
        sorted.sort_by_key(|f| f.at);
        let mut shift = 0;
        for f in &sorted {
            for j in 0..f.ops.len() {
                steps.push(f.at + shift + j);
            }
            shift += f.ops.len();
        }
        let e = sess::run(&cfg, &ops);
        ctx.add(&ctx.evaluations, 1);
        ctx.add(&ctx.transitions, e.steps.len() as u64);
        ctx.add(&ctx.traces, 1);
        let kinds: Vec<&'static str> = fs.iter().map(|f| f.kind).collect();
        let (v, nontrivial) = judge_against_clean(&e, &clean_w, &steps, &kinds);
        if nontrivial {
            ctx.add(&ctx.nontrivial, 1);
            ctx.count(&format!("failed: {}", kinds[0]), 1);
        } else {
            ctx.count("fault_did_not_fail (not judged)", 1);
        }
        for (sig, d) in v {
            ctx.violation(sig, format!("{}: {d}", proto.name), sess::case_json(&cfg, &ops));
        }
    };
    for f in &faults {
        run_case(&[f]);
    }
    if bound2 {
        // two failures: the same step twice, and pairs of different steps (one representative per kind and position)
        let mut reps: Vec<&Fault> = vec![];
        for f in &faults {
            if !reps.iter().any(|r| r.at == f.at && r.kind == f.kind) {
                reps.push(f);
            }
        }
        for (a, fa) in reps.iter().enumerate() {
            for fb in reps.iter().skip(a) {
                if fa.omit_psk.is_some() && fb.omit_psk.is_some() && fa.omit_psk == fb.omit_psk {
                    continue;
                }
                run_case(&[fa, fb]);
            }
        }
    }
}


/// The same single-fault sweep on another backend and with exactly sized buffers everywhere (payload buffers of
/// exactly the payload length, transport output buffers of exactly the message length): backends take other
/// code paths for tight buffers (ring opens through a copy), and whatever they keep between calls is invisible
/// to the state fingerprint, so this sweep is unmerged like the one above. Faulted reads are also made into
/// tight and in-between buffers.
fn check_name_variant(ctx: &Ctx, proto: &Proto, backend: crate::seam::Backend) {
    let tighten = |o: &Op| -> Op {
        match o.clone() {
            Op::HsWrite { side, plen, cap: Cap::Roomy } => Op::HsWrite { side, plen, cap: Cap::NeedPlus(16) },
            Op::HsRead { side, msg, cap: Cap::Roomy } => Op::HsRead { side, msg, cap: Cap::NeedPlus(0) },
            Op::TWrite { side, plen, cap: Cap::Roomy } => Op::TWrite { side, plen, cap: Cap::NeedPlus(0) },
            Op::TRead { side, msg, cap: Cap::Roomy } => Op::TRead { side, msg, cap: Cap::NeedPlus(0) },
            o => o,
        }
    };
    let h: Vec<Op> = honest(proto).iter().map(tighten).collect();
    let mut base_cfg = cfg_for(proto, &[]);
    base_cfg.backend = [backend, backend];
    let clean = sess::run(&base_cfg, &h);
    if clean.steps.iter().any(|s| !s.real.is_ok()) {
        ctx.count("names_skipped_clean_run_failed", 1);
        return;
    }
    let clean_w = wire_bytes(&clean);
    let mut faults: Vec<Fault> = vec![];
    for f in faults_for(proto, false, 64) {
        if f.omit_psk.is_some() {
            continue;
        }
        // failing reads: roomy as given, and into exactly sized / in-between buffers
        if let [Op::HsRead { side, msg, cap: Cap::Roomy }] = f.ops.as_slice() {
            for cap in [Cap::NeedPlus(0), Cap::NeedPlus(5)] {
                faults.push(Fault { at: f.at, ops: vec![Op::HsRead { side: *side, msg: msg.clone(), cap }], kind: f.kind, omit_psk: None });
            }
        }
        if let [Op::TRead { side, msg, cap: Cap::Roomy }] = f.ops.as_slice() {
            for cap in [Cap::NeedPlus(0), Cap::NeedPlus(5), Cap::NeedPlus(15)] {
                faults.push(Fault { at: f.at, ops: vec![Op::TRead { side: *side, msg: msg.clone(), cap }], kind: f.kind, omit_psk: None });
            }
        }
        faults.push(f);
    }
    for f in &faults {
        let ops = apply(&h, &[f]);
        let steps: Vec<usize> = (0..f.ops.len()).map(|j| f.at + j).collect();
        let e = sess::run(&base_cfg, &ops);
        ctx.add(&ctx.evaluations, 1);
        ctx.add(&ctx.transitions, e.steps.len() as u64);
        ctx.add(&ctx.traces, 1);
        let (v, nontrivial) = judge_against_clean(&e, &clean_w, &steps, &[f.kind]);
        if nontrivial {
            ctx.add(&ctx.nontrivial, 1);
            ctx.count("failed (exactly sized buffers, other backend)", 1);
        } else {
            ctx.count("fault_did_not_fail (not judged)", 1);
        }
        for (sig, d) in v {
            ctx.violation(format!("{sig} [exactly sized buffers]"), format!("{} {:?}: {d}", proto.name, backend), json!({"kind": "c07-diff", "config": base_cfg, "ops": ops, "base_ops": h, "fault_steps": steps}));
        }
    }
}

/// A failing set_psk (wrong key length, location out of range) must change nothing either - in particular it
/// must not leave something in an EMPTY slot. Baseline: the side's psk is not configured, the call that needs
/// it fails (missing psk), set_psk supplies it, the session completes. Faulted: the same with failing set_psk
/// calls before the call that needs the psk (and once at the very start). Every other step must have the same
/// outcome and every message the same bytes as in the baseline.
fn check_failed_set_psk(ctx: &Ctx, proto: &Proto) {
    let h = honest(proto);
    let faults = faults_for(proto, false, 64);
    for base_f in faults.iter().filter(|f| f.omit_psk.is_some()) {
        let (side, loc) = base_f.omit_psk.unwrap();
        let cfg = cfg_for(proto, &[base_f]);
        let base_ops = apply(&h, &[base_f]);
        let base = sess::run(&cfg, &base_ops);
        let outcome = |e: &Exec, skip: &[usize]| -> Vec<bool> { e.steps.iter().enumerate().filter(|(k, _)| !skip.contains(k)).map(|(_, s)| s.real.is_ok()).collect() };
        let base_out = outcome(&base, &[]);
        let base_w = wire_bytes(&base);
        for (bad_loc, klen) in [(loc, 0usize), (loc, 31), (loc, 33), (loc, 64), (10, 32), (11, 31)] {
            for at in [0usize, base_f.at] {
                let mut ops = base_ops.clone();
                ops.insert(at, Op::SetPsk { side, loc: bad_loc, klen });
                let e = sess::run(&cfg, &ops);
                ctx.add(&ctx.evaluations, 1);
                ctx.add(&ctx.transitions, e.steps.len() as u64);
                ctx.add(&ctx.traces, 1);
                if e.steps.get(at).map_or(true, |s| s.real.is_ok()) {
                    ctx.count("fault_did_not_fail (not judged)", 1);
                    continue;
                }
                ctx.add(&ctx.nontrivial, 1);
                ctx.count("failed: set_psk with a wrong key length or location", 1);
                let got = outcome(&e, &[at]);
                let mut v: Vec<(String, String)> = sess::filter(&e, &NOOP_CATS).into_iter().filter(|m| m.step == at).map(|m| ("NoOp after a failing set_psk".to_string(), m.detail.clone())).collect();
                if got != base_out {
                    let k = got.iter().zip(&base_out).position(|(a, b)| a != b).unwrap_or(0);
                    v.push(("a later call behaves differently after a failing set_psk (wrong key length / location)".to_string(), format!("call {k} (not counting the failing one): {} here, {} without the failing set_psk", if got.get(k) == Some(&true) { "Ok" } else { "Err" }, if base_out.get(k) == Some(&true) { "Ok" } else { "Err" })));
                } else if wire_bytes(&e) != base_w {
                    v.push(("messages after a failing set_psk differ from the run without it".to_string(), "wire bytes differ".to_string()));
                }
                for (sig, d) in v {
                    ctx.violation(sig, format!("{}: set_psk({bad_loc}, {klen} bytes) by {side:?} before op {at}: {d}", proto.name), sess::case_json(&cfg, &ops));
                }
            }
        }
    }
}

// ---------------------------------------------------------------------------------------------
// E2: scattered failures as sequences with de-duplication

fn seq_spec(proto: &Proto, depth_extra: usize, devs: usize) -> SeqSpec {
    let cfg = cfg_for(proto, &[]);
    // the honest schedule must consist of state-changing calls only: the "next honest step" is chosen from
    // the state, and a state-neutral call (the raw-split query) would be a self-loop that merging cuts off
    let h: Vec<Op> = honest(proto).into_iter().filter(|o| !matches!(o, Op::RawSplit { .. })).collect();
    let clean_w = wire_bytes(&sess::run(&cfg, &h));
    let n = proto.n_msgs();
    let ov = overheads(proto);
    let hh = h.clone();
    let alphabet = Arc::new(move |e: &Exec| {
        let mut a: Vec<(Op, bool)> = vec![];
        // the next honest step = the first honest op not yet executed successfully
        let done = e.steps.iter().filter(|s| s.real.is_ok() && hh.contains(&s.op)).count();
        if let Some(next) = hh.get(done) {
            a.push((next.clone(), false));
        }
        for s in SIDES {
            let ab = &e.abs[s.idx()];
            match ab.phase {
                APhase::Hs => {
                    let k = ab.pos.min(n - 1);
                    let need = ov[k] + 3;
                    a.push((Op::HsWrite { side: s, plen: 3, cap: Cap::Exact(need.saturating_sub(17)) }, true));
                    a.push((Op::HsWrite { side: s, plen: 3, cap: Cap::Exact(need - 1) }, true));
                    a.push((Op::HsWrite { side: s, plen: 65535, cap: Cap::Exact(70000) }, true));
                    if let Some(k) = e.wires[s.peer().idx()].len().checked_sub(1) {
                        let g = Msg::Wire(s.peer(), k);
                        a.push((Op::HsRead { side: s, msg: Msg::Altered(Box::new(g.clone()), Alter::FlipLast), cap: Cap::Roomy }, true));
                        a.push((Op::HsRead { side: s, msg: Msg::Altered(Box::new(g.clone()), Alter::TruncBy(1)), cap: Cap::Roomy }, true));
                        a.push((Op::HsRead { side: s, msg: g, cap: Cap::Exact(0) }, true));
                    }
                    a.push((Op::HsRead { side: s, msg: Msg::Garbage(80, 4), cap: Cap::Roomy }, true));
                },
                APhase::T => {
                    a.push((Op::TWrite { side: s, plen: 3, cap: Cap::NeedPlus(-1) }, true));
                    if let Some(k) = e.wires[s.peer().idx()].len().checked_sub(1) {
                        a.push((Op::TRead { side: s, msg: Msg::Altered(Box::new(Msg::Wire(s.peer(), k)), Alter::FlipLast), cap: Cap::Roomy }, true));
                        a.push((Op::TRead { side: s, msg: Msg::Wire(s.peer(), k), cap: Cap::NeedPlus(-1) }, true));
                    }
                    a.push((Op::TRead { side: s, msg: Msg::Garbage(15, 1), cap: Cap::Roomy }, true));
                },
                _ => {},
            }
        }
        a
    });
    let hh2 = h.clone();
    let judge = Arc::new(move |e: &Exec| {
        let mut v: Vec<(String, String)> = sess::filter(e, &NOOP_CATS).into_iter().map(|m| (format!("{:?} in a sequence with failed calls", m.cat), format!("{}: {}", e.cfg.name, m.detail))).collect();
        // honest steps must succeed and reproduce the clean run's bytes
        for (k, s) in e.steps.iter().enumerate() {
            if hh2.contains(&s.op) && !s.real.is_ok() && matches!(s.expect, crate::exec::Expect::Ok(_)) {
                v.push((format!("{} fails after failed calls", sess::op_kind(&s.op).split('(').next().unwrap_or("")), format!("{}: step {k} {:?} -> {}", e.cfg.name, s.op, s.real.short())));
                break;
            }
        }
        for side in 0..2 {
            for (k, w) in e.wires[side].iter().enumerate() {
                if clean_w[side].get(k).map_or(true, |c| *c != w.bytes) {
                    v.push(("messages after failed calls differ from the run without them (sequence)".to_string(), format!("{}: message {k} of side {side}", e.cfg.name)));
                    return v;
                }
            }
        }
        v
    });
    let total = h.len();
    let hh3 = h;
    let goal = Arc::new(move |e: &Exec| e.steps.iter().filter(|s| s.real.is_ok() && hh3.contains(&s.op)).count() >= total.min(2 * n + 4));
    SeqSpec { cfg, prefix: vec![], max_depth: 2 * n + 2 + depth_extra, max_devs: devs, alphabet, judge, goal }
}

pub fn run(tier: Tier) -> i32 {
    let ctx = Ctx::new("C07", tier, "fault_enumeration");
    let quick = ctx.quick();
    ctx.set_rule("case = (protocol name, honest session of handshake + 6 transport messages, 1 or 2 failing calls inserted at a chosen point: undersized write buffer at every token boundary (thorough: every length), over-long payload, out-of-turn call, PSK supplied late, set_psk with a wrong key length / location on an empty slot, bit-flipped / truncated / extended / oversize / all-zero / earlier message, undersized payload buffer, transport-mode failures incl. reads and writes refused at a counter moved to 2^64-1 and back with the explicit setters); oracle: wire bytes identical to the run without the failing calls, every other step Ok, no public getter changes across the failed call; non-trivial = every inserted call really returned Err; plus E2 BFS over scattered failures");
    // E1
    let mut names: Vec<(Proto, bool)> = patterns::all_protos_for_suite(DhAlg::X25519, CipherAlg::ChaChaPoly, HashAlg::Sha256).into_iter().map(|p| (p, false)).collect();
    for b in patterns::base_patterns() {
        names.push((Proto::new(&b, &[], DhAlg::P256, CipherAlg::AesGcm, HashAlg::Sha512).unwrap(), false));
    }
    if !quick {
        names.extend(patterns::all_protos_for_suite(DhAlg::X25519, CipherAlg::XChaChaPoly, HashAlg::Blake2b).into_iter().map(|p| (p, false)));
        names.extend(patterns::all_protos_for_suite(DhAlg::P256, CipherAlg::ChaChaPoly, HashAlg::Blake2s).into_iter().map(|p| (p, false)));
    }
    // bound 2 on the base patterns (+ psk variants thorough)
    for b in patterns::base_patterns() {
        names.push((Proto::new(&b, &[], DhAlg::X25519, CipherAlg::AesGcm, HashAlg::Blake2s).unwrap(), true));
        if !quick {
            let last = b.msgs.len() as u8;
            names.push((Proto::new(&b, &[0, last], DhAlg::X25519, CipherAlg::AesGcm, HashAlg::Blake2s).unwrap(), true));
        }
    }
    ctx.set("names_bound1", json!(names.iter().filter(|x| !x.1).count()));
    ctx.set("names_bound2", json!(names.iter().filter(|x| x.1).count()));
    let stride = if quick { 8 } else { 1 };
    names.par_iter().for_each(|(p, b2)| check_name(&ctx, p, !quick && !*b2, if *b2 { 64 } else { stride }, *b2));
    names.par_iter().filter(|(p, b2)| !*b2 && !p.psks.is_empty()).for_each(|(p, _)| check_failed_set_psk(&ctx, p));
    // exactly sized buffers on the ring-preferring and the default backend, every base pattern, two ciphers
    let vnames: Vec<(Proto, crate::seam::Backend)> = patterns::base_patterns()
        .iter()
        .enumerate()
        .flat_map(|(k, b)| {
            let c = if k % 2 == 0 { CipherAlg::AesGcm } else { CipherAlg::ChaChaPoly };
            let mut v = vec![(Proto::new(b, &[], DhAlg::X25519, c, HashAlg::Sha256).unwrap(), crate::seam::Backend::Ring)];
            if !quick || k % 4 == 0 {
                v.push((Proto::new(b, &[], DhAlg::X25519, if k % 2 == 0 { CipherAlg::ChaChaPoly } else { CipherAlg::XChaChaPoly }, HashAlg::Blake2s).unwrap(), crate::seam::Backend::Default));
                v.push((Proto::new(b, &[(k % (b.msgs.len() + 1)) as u8], DhAlg::X25519, if k % 2 == 0 { CipherAlg::ChaChaPoly } else { CipherAlg::AesGcm }, HashAlg::Sha512).unwrap(), crate::seam::Backend::Ring));
            }
            v
        })
        .collect();
    vnames.par_iter().for_each(|(p, b)| check_name_variant(&ctx, p, *b));
    ctx.set("names_exactly_sized_buffers", json!(vnames.len()));
    // E2
    let (extra, devs) = if quick { (3, 2) } else { (5, 3) };
    // all 38 base patterns and a psk variant of each (psk on the last message; thorough also psk0 and P-256)
    let e2_names: Vec<Proto> = patterns::base_patterns()
        .iter()
        .flat_map(|b| {
            let last = b.msgs.len() as u8;
            let mut v = vec![Proto::new(b, &[], DhAlg::X25519, CipherAlg::ChaChaPoly, HashAlg::Sha256).unwrap(), Proto::new(b, &[last], DhAlg::X25519, CipherAlg::ChaChaPoly, HashAlg::Sha256).unwrap()];
            if !quick {
                v.push(Proto::new(b, &[0], DhAlg::X25519, CipherAlg::AesGcm, HashAlg::Blake2b).unwrap());
                v.push(Proto::new(b, &[last.saturating_sub(1)], DhAlg::P256, CipherAlg::XChaChaPoly, HashAlg::Sha512).unwrap());
            }
            v
        })
        .collect();
    e2_names.par_iter().for_each(|p| {
        // honest sessions that fail without any failing call are C02's business: nothing to compare against
        if !sess::run(&cfg_for(p, &[]), &honest(p)).steps.iter().all(|s| s.real.is_ok()) {
            ctx.count("names_skipped_clean_run_failed", 1);
            return;
        }
        let s = seq_spec(p, extra, devs);
        let r = seqmc::explore(s.clone());
        ctx.add(&ctx.states, r.states);
        ctx.add(&ctx.transitions, r.transitions);
        ctx.add(&ctx.evaluations, r.transitions);
        ctx.add(&ctx.traces, r.transitions);
        ctx.count("e2_states", r.states);
        ctx.count("e2_transitions", r.transitions);
        if std::env::var("C07_DEBUG").is_ok() {
            eprintln!("{}: states {} generated {} transitions {} max_depth {} goal {} outcomes {:?}", p.name, r.states, r.generated, r.transitions, r.max_depth, r.goal_reached, r.outcomes);
        }
        if !r.goal_reached {
            ctx.vacuous(format!("{}: E2 goal not reached", p.name));
        }
        for (sig, d, hist) in &r.verdicts {
            ctx.violation(sig.clone(), d.clone(), sess::case_json(&s.cfg, hist));
        }
    });
    let p0 = proto("XX", &[], DhAlg::X25519, CipherAlg::ChaChaPoly, HashAlg::Sha256);
    let f0 = faults_for(&p0, false, 8);
    let pick: Vec<&Fault> = f0.iter().filter(|f| f.at == 4).take(1).collect();
    ctx.sample(json!({"name": p0.name, "fault": pick[0].kind, "ops": apply(&honest(&p0), &pick)}));
    ctx.sample(json!({"fault_kinds": f0.iter().map(|f| f.kind).collect::<std::collections::BTreeSet<_>>()}));
    ctx.assume("fixed ephemerals (fixed_ephemeral_key_for_testing_only) make the continuation a pure function of the call sequence; the ScriptedRng path is exercised by C06");
    ctx.assume("a failing call may return any Err variant; alterations that the receiver accepts (clear fields) are not failed calls and are C03's business");
    *ctx.exhaustive.lock().unwrap() = Some(!quick);
    ctx.finish()
}

pub fn replay(case: &serde_json::Value) -> Result<(), String> {
    if case["kind"] == "c07-diff" {
        let (cfg, ops) = sess::case_from_json(case).ok_or("bad case")?;
        let base_ops: Vec<Op> = serde_json::from_value(case["base_ops"].clone()).map_err(|e| e.to_string())?;
        let steps: Vec<usize> = serde_json::from_value(case["fault_steps"].clone()).map_err(|e| e.to_string())?;
        let clean_w = wire_bytes(&sess::run(&cfg, &base_ops));
        let e = sess::run(&cfg, &ops);
        let (v, _) = judge_against_clean(&e, &clean_w, &steps, &["replayed fault"]);
        return match v.first() {
            Some((s, d)) => Err(format!("{s}: {d}\n{}", sess::describe_steps(&e).join("\n"))),
            None => Ok(()),
        };
    }
    let (cfg, ops) = sess::case_from_json(case).ok_or("bad case")?;
    let proto = cfg.proto();
    let h = honest(&proto);
    let clean = sess::run(&cfg_for(&proto, &[]), &h);
    let clean_w = wire_bytes(&clean);
    let e = sess::run(&cfg, &ops);
    // fault steps = ops that are not part of the honest list (in order)
    let mut hi = 0;
    let mut fault_steps = vec![];
    for (k, o) in ops.iter().enumerate() {
        if h.get(hi) == Some(o) {
            hi += 1;
        } else {
            fault_steps.push(k);
        }
    }
    if hi < h.len() && ops.len() < h.len() {
        // an E2 history (prefix of the honest run with failures): compare wires prefix-wise
        for side in 0..2 {
            for (k, w) in e.wires[side].iter().enumerate() {
                if clean_w[side].get(k).map_or(true, |c| *c != w.bytes) {
                    return Err(format!("message {k} of side {side} differs from the clean run\n{}", sess::describe_steps(&e).join("\n")));
                }
            }
        }
        if let Some(m) = sess::filter(&e, &NOOP_CATS).first() {
            return Err(m.detail.clone());
        }
        for (k, s) in e.steps.iter().enumerate() {
            if h.contains(&s.op) && !s.real.is_ok() && matches!(s.expect, crate::exec::Expect::Ok(_)) {
                return Err(format!("step {k} {:?} -> {}\n{}", s.op, s.real.short(), sess::describe_steps(&e).join("\n")));
            }
        }
        return Ok(());
    }
    let (v, _) = judge_against_clean(&e, &clean_w, &fault_steps, &["replayed"]);
    match v.first() {
        Some((sig, d)) => Err(format!("{sig}: {d}\n{}", sess::describe_steps(&e).join("\n"))),
        None => Ok(()),
    }
}

#[allow(dead_code)]
fn _unused(_: WireMeta) {}
