//! C06 No AEAD (key, nonce) pair is ever used to encrypt two different inputs; every ephemeral
//! is drawn from the resolver's RNG during that very write. Observer: the RecordingCipher and
//! the ScriptedRng supplied through Builder::with_resolver (both endpoints' logs merged).
//! E1: every single failing call along the honest run of all 556 handshake names (+ retry);
//! E2: BFS over sequences with scattered failures, conversions, transport traffic and rekeys.

use super::{c07, common::*};
use crate::{
    ctx::{Ctx, Tier},
    engine::seqmc::{self, SeqSpec},
    exec::{APhase, Alter, Cap, Cat, Config, Eph, Exec, Msg, Op, Side, SIDES},
    seam::CipherOp,
    sess::{self, Mode},
};
use rayon::prelude::*;
use refnoise::{patterns, state::overheads, CipherAlg, DhAlg, HashAlg, Proto};
use serde_json::json;
use std::{collections::HashMap, sync::Arc};

// a panic is C10's business, not this property's
const CATS: [Cat; 2] = [Cat::RngNotFresh, Cat::EphemeralMismatch];

/// The invariant: (key, nonce) -> one (ad, plaintext). Identical re-encryptions are allowed
/// (the property forbids two encryptions of *different* data).
pub fn key_nonce_violations(e: &Exec) -> Vec<(String, String)> {
    let mut seen: HashMap<([u8; 32], u64), (Vec<u8>, Vec<u8>, Side, usize)> = HashMap::new();
    let mut out = vec![];
    for s in SIDES {
        for ev in e.logs[s.idx()].cipher_since(0) {
            // REKEY is an encryption of 32 zero bytes under the *old* key and the reserved nonce
            let (k, data) = match ev.op {
                CipherOp::Encrypt => (ev.key, ev.data.clone()),
                CipherOp::Rekey => (ev.prev_key, vec![0u8; 32]),
                _ => continue,
            };
            let Some(k) = k else { continue };
            let mut ev = ev.clone();
            ev.data = data;
            match seen.get(&(k, ev.nonce)) {
                None => {
                    seen.insert((k, ev.nonce), (ev.ad.clone(), ev.data.clone(), s, ev.obj));
                },
                Some((ad, data, s0, o0)) => {
                    if *ad != ev.ad || *data != ev.data {
                        let place = |o: usize| if o == 0 { "handshake cipher" } else { "transport cipher" };
                        out.push((
                            format!("two different inputs encrypted under one (key, nonce): {} then {}", place(*o0), place(ev.obj)),
                            format!("{}: nonce {} used by {:?} (object {}) and by {:?} (object {}); plaintext lengths {} / {}", e.cfg.name, ev.nonce, s0, o0, s, ev.obj, data.len(), ev.data.len()),
                        ));
                    }
                },
            }
        }
    }
    out
}

fn judge_all(e: &Exec) -> Vec<(String, String)> {
    let mut v = key_nonce_violations(e);
    for m in sess::filter(e, &CATS) {
        v.push((sess::signature(e, m), format!("{}: {}", e.cfg.name, m.detail)));
    }
    v
}

fn c06_cfg(proto: &Proto, faults: &[&c07::Fault], seed: u64) -> Config {
    let mut c = c07::cfg_for(proto, faults);
    c.record = true;
    c.crypto_oracle = false;
    c.eph = [Eph::Scripted(seed), Eph::Scripted(seed + 1000)];
    c
}

fn e1_name(ctx: &Ctx, proto: &Proto, bound2: bool) {
    let h = c07::honest(proto);
    let faults = c07::faults_for(proto, false, 64);
    let run_case = |fs: &[&c07::Fault]| {
        let cfg = c06_cfg(proto, fs, 77);
        let ops = c07::apply(&h, fs);
        let e = sess::run(&cfg, &ops);
        ctx.add(&ctx.evaluations, 1);
        ctx.add(&ctx.transitions, e.steps.len() as u64);
        ctx.add(&ctx.traces, 1);
        let encs: usize = SIDES.iter().map(|s| e.logs[s.idx()].cipher_since(0).iter().filter(|x| x.op == CipherOp::Encrypt).count()).sum();
        if encs >= 2 && e.steps.iter().any(|s| !s.real.is_ok()) {
            ctx.add(&ctx.nontrivial, 1);
        }
        ctx.count("aead_encryptions_observed", encs as u64);
        for (sig, d) in judge_all(&e) {
            ctx.violation(sig, d, sess::case_json(&cfg, &ops));
        }
    };
    run_case(&[]);
    for f in &faults {
        run_case(&[f]);
    }
    if bound2 {
        let mut reps: Vec<&c07::Fault> = vec![];
        for f in &faults {
            if !reps.iter().any(|r| r.at == f.at && r.kind == f.kind) {
                reps.push(f);
            }
        }
        for (a, fa) in reps.iter().enumerate() {
            for fb in reps.iter().skip(a) {
                if fa.omit_psk.is_some() && fa.omit_psk == fb.omit_psk {
                    continue;
                }
                run_case(&[fa, fb]);
            }
        }
    }
}

fn seq_spec(proto: &Proto, extra: usize, devs: usize, nonce_edge: bool) -> SeqSpec {
    let cfg = c06_cfg(proto, &[], 5);
    let n = proto.n_msgs();
    let ov = overheads(proto);
    let mut hs = sess::handshake_ops(proto, &[2, 3, 4, 5]);
    hs.extend(sess::convert_ops(Mode::TT));
    let oneway = proto.pattern.is_oneway();
    let alphabet = Arc::new(move |e: &Exec| {
        let mut a: Vec<(Op, bool)> = vec![];
        let done = e.steps.iter().filter(|s| s.real.is_ok() && hs.contains(&s.op)).count();
        if let Some(next) = hs.get(done) {
            a.push((next.clone(), false));
        }
        for s in SIDES {
            let ab = &e.abs[s.idx()];
            match ab.phase {
                APhase::Hs => {
                    let k = ab.pos.min(n - 1);
                    let need = ov[k] + 3;
                    // a different payload than the honest step uses, failing after the fixed fields
                    a.push((Op::HsWrite { side: s, plen: 3, cap: Cap::Exact(need - 1) }, true));
                    a.push((Op::HsWrite { side: s, plen: 3, cap: Cap::Exact(need.saturating_sub(17)) }, true));
                    a.push((Op::HsWrite { side: s, plen: 65535, cap: Cap::Exact(70000) }, true));
                    a.push((Op::HsWrite { side: s, plen: 65535 - ov[k] + 1, cap: Cap::Exact(70000) }, true));
                    if let Some(k) = e.wires[s.peer().idx()].len().checked_sub(1) {
                        let g = Msg::Wire(s.peer(), k);
                        a.push((Op::HsRead { side: s, msg: Msg::Altered(Box::new(g.clone()), Alter::FlipLast), cap: Cap::Roomy }, true));
                        a.push((Op::HsRead { side: s, msg: g, cap: Cap::Exact(0) }, true));
                    }
                },
                APhase::T => {
                    let can_write = !(oneway && !s.is_init());
                    let written = common_t_written(e, s);
                    if can_write && written < 2 {
                        a.push((Op::TWrite { side: s, plen: 4 + written, cap: Cap::Roomy }, false));
                        a.push((Op::TWrite { side: s, plen: 9, cap: Cap::NeedPlus(-1) }, true));
                    }
                    if let Some(k) = e.wires[s.peer().idx()].len().checked_sub(1) {
                        a.push((Op::TRead { side: s, msg: Msg::Wire(s.peer(), k), cap: Cap::Roomy }, false));
                    }
                    a.push((Op::RekeyOut { side: s }, false));
                    a.push((Op::RekeyIn { side: s }, false));
                    a.push((Op::RekeyManual { side: s, i: Some(1), r: Some(2) }, false));
                    // set_receiving_nonce is about the *receiving* direction only: it must never move the sending
                    // counter (rewinding that one would reuse a nonce)
                    if written >= 1 {
                        a.push((Op::SetRecvNonce { side: s, n: 0 }, true));
                    }
                    // moving the sending nonce *forward* to the edge (never backward: that would be the
                    // caller's own reuse): writes at 2^64-2 and at the reserved 2^64-1, then a rekey
                    let ds = usize::from(!s.is_init());
                    if nonce_edge && ab.n[ds] < u64::MAX - 1 {
                        a.push((Op::SetSendNonce { side: s, n: u64::MAX - 1 }, true));
                        a.push((Op::SetSendNonce { side: s, n: u64::MAX }, true));
                    }
                    if ab.n[ds] >= u64::MAX - 1 {
                        a.push((Op::TWrite { side: s, plen: 5, cap: Cap::Roomy }, false));
                        a.push((Op::TWrite { side: s, plen: 6, cap: Cap::Roomy }, false));
                    }
                },
                _ => {},
            }
        }
        a
    });
    let goal = Arc::new(|e: &Exec| e.abs.iter().all(|a| a.phase == APhase::T) && e.steps.iter().any(|s| matches!(s.op, Op::TWrite { .. }) && s.real.is_ok()));
    SeqSpec { cfg, prefix: vec![], max_depth: 2 * n + 2 + extra, max_devs: devs, alphabet, judge: Arc::new(judge_all), goal }
}


/// Stateless mode: the caller chooses the nonces, so using a nonce twice under one key is the caller's mistake -
/// but using it again AFTER the sending key of that direction was replaced (rekey_outgoing, or a manual rekey of
/// one's own direction with a fresh key) is legitimate, and then the library must really have replaced the key.
/// Every sequence up to the given depth over {write under nonce 0 / 1, rekey_outgoing, rekey_incoming, manual rekey
/// of the initiator / responder key with a fresh key} in which no nonce is used twice without such a replacement,
/// for each side, cipher and backend; invariant on the merged encryption log as everywhere else.
fn stateless_rekey_sweep(ctx: &Ctx, depth: usize) {
    let mut jobs = vec![];
    for (c, b) in cipher_backends() {
        for (pat, sides) in [("NN", vec![Side::I, Side::R]), ("N", vec![Side::I])] {
            for s in sides {
                jobs.push((c, b, pat, s));
            }
        }
    }
    // sequences as digit strings base 6
    let total: usize = (1..=depth).map(|d| 6usize.pow(d as u32)).sum();
    jobs.par_iter().for_each(|(c, b, pat, side)| {
        let p = proto(pat, &[], DhAlg::X25519, *c, HashAlg::Sha256);
        let mut cfg = c06_cfg(&p, &[], 9);
        cfg.backend = [*b, *b];
        let mut pre = sess::handshake_ops(&p, &[0, 0, 0, 0]);
        pre.extend(sess::convert_ops(Mode::SS));
        let mut ran = 0u64;
        for d in 1..=depth {
            for code in 0..6usize.pow(d as u32) {
                let mut ops = pre.clone();
                let mut used: Vec<u64> = vec![];
                let mut fresh = 1u8;
                let mut ok = true;
                let mut x = code;
                for step in 0..d {
                    let a = x % 6;
                    x /= 6;
                    match a {
                        0 | 1 => {
                            let n = a as u64;
                            if used.contains(&n) {
                                ok = false;
                                break;
                            }
                            used.push(n);
                            ops.push(Op::SWrite { side: *side, nonce: n, plen: 1 + step, cap: Cap::Roomy });
                        },
                        2 => {
                            ops.push(Op::RekeyOut { side: *side });
                            used.clear();
                        },
                        3 => ops.push(Op::RekeyIn { side: *side }),
                        4 => {
                            ops.push(Op::RekeyInitManual { side: *side, k: fresh });
                            fresh += 1;
                            if side.is_init() {
                                used.clear();
                            }
                        },
                        _ => {
                            ops.push(Op::RekeyRespManual { side: *side, k: fresh });
                            fresh += 1;
                            if !side.is_init() {
                                used.clear();
                            }
                        },
                    }
                }
                // sequences without two writes say nothing
                if !ok || ops.iter().filter(|o| matches!(o, Op::SWrite { .. })).count() < 2 {
                    continue;
                }
                let e = sess::run(&cfg, &ops);
                ran += 1;
                for (sig, dd) in key_nonce_violations(&e) {
                    ctx.violation(format!("{sig} (stateless mode, nonce reused only after the sending key was replaced)"), dd, sess::case_json(&cfg, &ops));
                }
            }
        }
        ctx.add(&ctx.evaluations, ran);
        ctx.add(&ctx.nontrivial, ran);
        ctx.add(&ctx.traces, ran);
        ctx.add(&ctx.transitions, ran * (depth as u64 + 6));
        ctx.count("stateless_rekey_sequences", ran);
    });
    let _ = total;
}


/// Observing a session must not encrypt anything: every state object is Debug-formatted between all the steps of a
/// session with rekeys of every kind, stateful and stateless; the merged encryption log must still be free of
/// (key, nonce) collisions (the REKEY encryption at 2^64-1 is the obvious thing to collide with).
fn observation_sweep(ctx: &Ctx) {
    let mut jobs = vec![];
    for (c, b) in cipher_backends() {
        for pat in ["NN", "XX", "N"] {
            for mode in [Mode::TT, Mode::SS] {
                jobs.push((c, b, pat, mode));
            }
        }
    }
    jobs.par_iter().for_each(|(c, b, pat, mode)| {
        let p = proto(pat, &[], DhAlg::X25519, *c, HashAlg::Sha256);
        let mut cfg = c06_cfg(&p, &[], 31);
        cfg.backend = [*b, *b];
        let dbg = [Op::DebugFmt { side: Side::I }, Op::DebugFmt { side: Side::R }];
        let mut ops: Vec<Op> = dbg.to_vec();
        for op in sess::handshake_ops(&p, &[1, 2, 3, 4]) {
            ops.push(op);
            ops.extend(dbg.iter().cloned());
        }
        ops.extend(sess::convert_ops(*mode));
        ops.extend(dbg.iter().cloned());
        let oneway = p.pattern.is_oneway();
        let dirs: Vec<Side> = if oneway { vec![Side::I] } else { vec![Side::I, Side::R] };
        let mut round = 0usize;
        let mut traffic = |ops: &mut Vec<Op>| {
            // transport_ops numbers stateless nonces from 0 each time: give each round its own nonces
            for op in sess::transport_ops(*mode, oneway, &dirs, &[5 + round, 6 + round]) {
                ops.push(match op {
                    Op::SWrite { side, nonce, plen, cap } => Op::SWrite { side, nonce: nonce + 10 * round as u64, plen, cap },
                    Op::SRead { side, nonce, msg, cap } => Op::SRead { side, nonce: nonce + 10 * round as u64, msg, cap },
                    o => o,
                });
            }
            round += 1;
            ops.extend(dbg.iter().cloned());
        };
        traffic(&mut ops);
        for rk in [
            vec![Op::RekeyOut { side: Side::I }, Op::RekeyIn { side: Side::R }, Op::RekeyOut { side: Side::R }, Op::RekeyIn { side: Side::I }],
            vec![Op::RekeyManual { side: Side::I, i: Some(1), r: Some(2) }, Op::RekeyManual { side: Side::R, i: Some(1), r: Some(2) }],
            vec![Op::RekeyOut { side: Side::I }, Op::RekeyIn { side: Side::R }],
        ] {
            for o in rk {
                ops.extend(dbg.iter().cloned());
                ops.push(o);
            }
            ops.extend(dbg.iter().cloned());
            traffic(&mut ops);
        }
        let e = sess::run(&cfg, &ops);
        ctx.add(&ctx.evaluations, 1);
        ctx.add(&ctx.nontrivial, 1);
        ctx.add(&ctx.transitions, e.steps.len() as u64);
        ctx.add(&ctx.traces, 1);
        for (sig, d) in key_nonce_violations(&e) {
            ctx.violation(format!("{sig} (session observed through Debug between all steps)"), d, sess::case_json(&cfg, &ops));
        }
        for m in sess::filter(&e, &[Cat::NoOp]) {
            if matches!(e.steps.get(m.step).map(|s| &s.op), Some(Op::DebugFmt { .. })) {
                ctx.violation("Debug-formatting a state object changed it", m.detail.clone(), sess::case_json(&cfg, &ops[..=m.step]));
            }
        }
    });
    ctx.count("observation_sessions", jobs.len() as u64);
}

fn common_t_written(e: &Exec, s: Side) -> usize {
    transport_wires(e, s).len()
}

/// "Drawn from the resolver's random source": with the scripted source the draws themselves are observed; with the
/// sources the built-in resolvers hand out (default, and ring preferred over default) what can be observed is that
/// no two ephemerals ever coincide - across sessions, roles, names and backends. 3 sessions x 2 backends x 4 names;
/// every message that starts with an `e` contributes its first pub_len bytes.
fn builtin_rng_sessions(ctx: &Ctx) {
    use crate::seam::Backend;
    let mut seen: Vec<(Vec<u8>, String)> = vec![];
    for backend in [Backend::Default, Backend::Ring] {
        for (pat, dh) in [("NN", DhAlg::X25519), ("XX", DhAlg::X25519), ("NN", DhAlg::P256), ("IK", DhAlg::P256)] {
            for round in 0..3 {
                let p = proto(pat, &[], dh, CipherAlg::ChaChaPoly, HashAlg::Sha256);
                let mut cfg = Config::honest(&p, 0);
                cfg.crypto_oracle = false;
                cfg.backend = [backend, backend];
                cfg.eph = [Eph::Os, Eph::Os];
                let ops = sess::handshake_ops(&p, &[1, 1, 1, 1]);
                let e = Exec::run(&cfg, &ops);
                ctx.add(&ctx.evaluations, 1);
                ctx.add(&ctx.transitions, ops.len() as u64);
                for (side, ws) in e.wires.iter().enumerate() {
                    for (k, w) in ws.iter().enumerate() {
                        // message k of this side: does it start with an e token?
                        let idx = 2 * k + side;
                        if p.pattern.msgs.get(idx).and_then(|m| m.first()) != Some(&refnoise::patterns::Tok::E) || w.bytes.len() < dh.publen() {
                            continue;
                        }
                        let ek = w.bytes[..dh.publen()].to_vec();
                        let tag = format!("{} {backend:?} session {round} message {idx}", p.name);
                        if let Some((_, other)) = seen.iter().find(|(x, _)| *x == ek) {
                            ctx.violation("two handshake messages carry the same ephemeral key although the built-in random source was used", format!("{tag} and {other}"), json!({"kind": "builtin-rng"}));
                        }
                        seen.push((ek, tag));
                        ctx.add(&ctx.nontrivial, 1);
                    }
                }
            }
        }
    }
    ctx.count("ephemerals_from_builtin_random_sources", seen.len() as u64);
}

pub fn run(tier: Tier) -> i32 {
    let ctx = Ctx::new("C06", tier, "model_checking");
    let quick = ctx.quick();
    ctx.set_rule("E1: honest session (ScriptedRng ephemerals, RecordingCipher on both endpoints) with 0, 1 (and 2 on the base patterns) failing calls inserted at every point, then retried; E2: BFS over call sequences with scattered failures, conversion, transport writes/reads and rekeys; stateless mode: every sequence (depth 4/5) of writes under nonces {0,1} and the five rekey calls in which a nonce returns only after the sending key was replaced. Invariant on every run: in the merged Cipher::encrypt log no (key, nonce) maps to two different (ad, plaintext); every message with an `e` token drew its ephemeral from the RNG during that write. non-trivial = at least two encryptions observed and at least one call failed");
    let mut names: Vec<(Proto, bool)> = patterns::all_protos_for_suite(DhAlg::X25519, CipherAlg::ChaChaPoly, HashAlg::Sha256).into_iter().map(|p| (p, false)).collect();
    for b in patterns::base_patterns() {
        names.push((Proto::new(&b, &[], DhAlg::X25519, CipherAlg::AesGcm, HashAlg::Blake2b).unwrap(), true));
        if !quick {
            names.push((Proto::new(&b, &[], DhAlg::P256, CipherAlg::XChaChaPoly, HashAlg::Sha512).unwrap(), true));
            let last = b.msgs.len() as u8;
            names.push((Proto::new(&b, &[0, last], DhAlg::X25519, CipherAlg::ChaChaPoly, HashAlg::Blake2s).unwrap(), true));
        }
    }
    // the other DH function draws its ephemerals through its own code path: every 4th pattern in quick, all in thorough
    for (k, b) in patterns::base_patterns().iter().enumerate() {
        if !quick || k % 4 == 1 {
            names.push((Proto::new(b, &[], DhAlg::P256, CipherAlg::ChaChaPoly, HashAlg::Blake2s).unwrap(), false));
        }
    }
    names.par_iter().for_each(|(p, b2)| e1_name(&ctx, p, *b2));
    stateless_rekey_sweep(&ctx, if quick { 4 } else { 5 });
    observation_sweep(&ctx);
    builtin_rng_sessions(&ctx);
    ctx.count("e1_names", names.len() as u64);
    let (extra, devs) = if quick { (3, 2) } else { (5, 3) };
    let mut e2: Vec<Proto> = patterns::base_patterns().iter().map(|b| Proto::new(b, &[], DhAlg::X25519, CipherAlg::ChaChaPoly, HashAlg::Sha256).unwrap()).collect();
    for b in patterns::base_patterns() {
        let last = b.msgs.len() as u8;
        e2.push(Proto::new(&b, &[last], DhAlg::X25519, CipherAlg::ChaChaPoly, HashAlg::Sha256).unwrap());
        if !quick {
            e2.push(Proto::new(&b, &[0], DhAlg::X25519, CipherAlg::AesGcm, HashAlg::Sha512).unwrap());
        }
    }
    e2.par_iter().for_each(|p| {
        // the sending-nonce edge ops multiply the transport states: all names in thorough, the 1-2 message
        // patterns in quick (the transport code does not depend on the pattern)
        let s = seq_spec(p, extra, devs, !quick || p.n_msgs() <= 2);
        let r = seqmc::explore(s.clone());
        absorb(&ctx, &s, &r, &p.name);
    });
    let p0 = proto("XX", &[], DhAlg::X25519, CipherAlg::ChaChaPoly, HashAlg::Sha256);
    ctx.sample(json!({"name": p0.name, "ops": c07::honest(&p0), "observer": "RecordingCipher + ScriptedRng via Builder::with_resolver"}));
    ctx.assume("ScriptedRng mode only: with fixed_ephemeral_key_for_testing_only a retried `e` message re-derives the same keys by construction (outside the property)");
    ctx.assume("a caller who uses one nonce twice under one key in stateless mode, rewinds the sending nonce with the hook, or installs the same manual key twice, reuses (key, nonce) himself: not part of the alphabet; nonces reused only after the sending key was replaced are");
    *ctx.exhaustive.lock().unwrap() = Some(true);
    ctx.finish()
}

pub fn replay(case: &serde_json::Value) -> Result<(), String> {
    if case["kind"] == "builtin-rng" {
        let ctx = Ctx::new("C06", Tier::Quick, "model_checking");
        builtin_rng_sessions(&ctx);
        let v = ctx.violations.lock().unwrap();
        return match v.first() {
            Some(x) => Err(format!("{}: {}", x.signature, x.detail)),
            None => Ok(()),
        };
    }
    let (cfg, ops) = sess::case_from_json(case).ok_or("bad case")?;
    let e = sess::run(&cfg, &ops);
    match judge_all(&e).first() {
        Some((sig, d)) => Err(format!("{sig}: {d}\n{}", sess::describe_steps(&e).join("\n"))),
        None => Ok(()),
    }
}
