//! C02 Honest sessions complete, agree, and deliver every payload intact (E1).
//! No reference model needed: completion after exactly #messages messages, every read returns
//! exactly the bytes written, equal handshake hashes, ephemerals drawn from the RNG.

use crate::{
    ctx::{Ctx, Tier},
    exec::{Cat, Config, Eph, Exec, Op, Side, SIDES},
    seam::{Backend, Log, RngMode, SeamResolver},
    sess::{self, Mode},
};
use rayon::prelude::*;
use refnoise::{patterns, state::overheads, CipherAlg, DhAlg, HashAlg, Proto};
use serde_json::json;
use snow::Builder;

const CATS: [Cat; 5] = [Cat::ExpectedOkGotErr, Cat::OutBytes, Cat::OutLen, Cat::GetterFinished, Cat::Panic];

/// A key pair produced by the library's own generate_keypair under a scripted RNG stream.
fn lib_keypair(name: &str, seed: u64) -> Option<(Vec<u8>, Vec<u8>)> {
    let params = name.parse().ok()?;
    let b = Builder::with_resolver(params, SeamResolver::boxed(Backend::Default, RngMode::Scripted(seed), false, Log::new()));
    let kp = std::panic::catch_unwind(std::panic::AssertUnwindSafe(|| b.generate_keypair())).ok()?.ok()?;
    Some((kp.private, kp.public))
}

pub fn cfg_for(p: &Proto, stream: u64, eph: Eph2) -> Option<Config> {
    let mut c = Config::honest(p, 0);
    c.crypto_oracle = false;
    let ki = lib_keypair(&p.name, 100 + stream)?;
    let kr = lib_keypair(&p.name, 200 + stream)?;
    if c.s_priv[0].is_some() {
        c.s_priv[0] = Some(ki.0.clone());
    }
    if c.s_priv[1].is_some() {
        c.s_priv[1] = Some(kr.0.clone());
    }
    if c.rs_pub[0].is_some() {
        c.rs_pub[0] = Some(kr.1.clone());
    }
    if c.rs_pub[1].is_some() {
        c.rs_pub[1] = Some(ki.1.clone());
    }
    c.eph = match eph {
        Eph2::Scripted => [Eph::Scripted(300 + stream), Eph::Scripted(400 + stream)],
        Eph2::Os => [Eph::Os, Eph::Os],
    };
    Some(c)
}

#[derive(Clone, Copy, PartialEq, Eq, Debug)]
pub enum Eph2 {
    Scripted,
    Os,
}

/// run and judge; returns violations
pub fn check(cfg: &Config, ops: &[Op]) -> Vec<(String, String)> {
    let mut e = Exec::new(cfg);
    let mut v = vec![];
    if let Some(b) = &e.build_err {
        return vec![("an honest configuration failed to build".into(), format!("{}: {b}", cfg.name))];
    }
    let n = e.proto.n_msgs();
    let mut hash_checked = false;
    for op in ops.iter() {
        e.step(op);
        // once, when the model says both sides have processed all n messages (and are still handshake objects)
        if !hash_checked && e.abs.iter().all(|a| a.pos == n && a.phase == crate::exec::APhase::Hs) {
            let (gi, gr) = (e.getters(Side::I), e.getters(Side::R));
            hash_checked = true;
            if gi.hash != gr.hash {
                v.push(("the two sides report different handshake hashes".into(), cfg.name.clone()));
            }
            if !(gi.finished && gr.finished) {
                v.push(("handshake not finished after the pattern's last message".into(), cfg.name.clone()));
            }
        }
    }
    if !hash_checked && !e.desync {
        v.push(("handshake not finished after the pattern's last message".into(), cfg.name.clone()));
    }
    let _ = hash_checked;
    for m in sess::filter(&e, &CATS) {
        v.push((sess::signature(&e, m), format!("{}: {}", cfg.name, m.detail)));
    }
    // (whether an ephemeral is drawn during its write is C06's clause, not judged here: "freshly generated random
    // ephemeral keys" is the premise under which C02 must hold - the sessions above run under RNG ephemerals)
    v
}

fn dir_strings(max: usize) -> Vec<Vec<Side>> {
    let mut out = vec![];
    for len in 1..=max {
        for mask in 0..(1u32 << len) {
            out.push((0..len).map(|i| if mask & (1 << i) != 0 { Side::R } else { Side::I }).collect());
        }
    }
    out
}

pub fn run(tier: Tier) -> i32 {
    let ctx = Ctx::new("C02", tier, "model_checking");
    let quick = ctx.quick();
    ctx.set_rule("case = (protocol name, key pairs from the library's generate_keypair under scripted RNG streams, scripted-RNG ephemerals, handshake payload lengths, transport mode in {TT, SS, TS, ST}, transport direction string, transport payload lengths); oracle: every step Ok, every read returns exactly the bytes written, finished after exactly #messages messages on both sides, equal handshake hashes, ephemerals drawn during the write. All 13 344 names with the default vector; payload-length and direction-string variations on covering subsets; one labelled sample run per base pattern with OS randomness. states = distinct cases");
    let all = patterns::all_protos();
    let eval = |cfg: &Config, ops: &[Op]| {
        ctx.add(&ctx.evaluations, 1);
        ctx.add(&ctx.transitions, ops.len() as u64);
        ctx.add(&ctx.traces, 1);
        let v = check(cfg, ops);
        if v.is_empty() {
            ctx.add(&ctx.nontrivial, 1);
        }
        for (sig, d) in v {
            ctx.violation(sig, d, sess::case_json(cfg, ops));
        }
    };
    // 1. every name, default vector, alternating modes
    let dirs6 = [Side::I, Side::R, Side::R, Side::I, Side::I, Side::R];
    all.par_iter().enumerate().for_each(|(k, p)| {
        let Some(cfg) = cfg_for(p, (k % 2) as u64, Eph2::Scripted) else {
            ctx.violation("generate_keypair failed", p.name.clone(), json!({"name": p.name}));
            return;
        };
        let mode = [Mode::TT, Mode::SS, Mode::TS, Mode::ST][k % 4];
        eval(&cfg, &sess::full_session_ops(p, &[5, 0, 33, 1], mode, &dirs6, &[0, 1, 17, 300, 2, 64]));
    });
    ctx.count("names_default", all.len() as u64);
    // 2. payload length 0..max per message index (one index varied at a time)
    let subset: Vec<&Proto> = all.iter().enumerate().filter(|(k, p)| if quick { p.psks.is_empty() || k % 11 == 0 } else { true }).map(|(_, p)| p).collect();
    let jobs: Vec<(&Proto, Vec<usize>)> = subset
        .iter()
        .flat_map(|p| {
            let ov = overheads(p);
            let mut v = vec![];
            for k in 0..p.n_msgs() {
                let max = 65535 - ov[k];
                let lens: Vec<usize> = if quick { vec![0, 1, 17, max - 1, max] } else { vec![0, 1, 15, 16, 17, 255, 256, max - 1, max] };
                for l in lens {
                    let mut pl = vec![0; p.n_msgs()];
                    pl[k] = l;
                    v.push((*p, pl));
                }
            }
            v
        })
        .collect();
    jobs.par_iter().for_each(|(p, pl)| {
        if let Some(cfg) = cfg_for(p, 2, Eph2::Scripted) {
            eval(&cfg, &sess::full_session_ops(p, pl, Mode::TT, &[Side::I, Side::R], &[1, 1]));
        }
    });
    ctx.count("payload_length_cases", jobs.len() as u64);
    // 3. every direction string of transport traffic of length <= 5, x modes, x payload lengths
    let dirs = dir_strings(5);
    let base: Vec<Proto> = patterns::base_patterns().iter().enumerate().map(|(k, b)| Proto::new(b, &[], if k % 2 == 0 { DhAlg::X25519 } else { DhAlg::P256 }, [CipherAlg::ChaChaPoly, CipherAlg::AesGcm, CipherAlg::XChaChaPoly][k % 3], [HashAlg::Sha256, HashAlg::Sha512, HashAlg::Blake2s, HashAlg::Blake2b][k % 4]).unwrap()).collect();
    let djobs: Vec<(&Proto, &Vec<Side>, Mode, usize)> = base
        .iter()
        .flat_map(|p| {
            let mut v = vec![];
            for d in &dirs {
                if p.pattern.is_oneway() && d.contains(&Side::R) {
                    continue;
                }
                for m in [Mode::TT, Mode::SS, Mode::TS] {
                    v.push((p, d, m, 7usize));
                }
            }
            // maximum-size transport payloads in both directions
            v.push((p, &dirs[dirs.len() - 1], Mode::TT, 65519));
            v.push((p, &dirs[dirs.len() - 1], Mode::SS, 65519));
            v
        })
        .collect();
    djobs.par_iter().for_each(|(p, d, m, pl)| {
        if let Some(cfg) = cfg_for(p, 3, Eph2::Scripted) {
            let tp: Vec<usize> = (0..d.len()).map(|i| if *pl > 1000 { *pl } else { i * 3 + pl % 5 }).collect();
            eval(&cfg, &sess::full_session_ops(p, &[1, 2, 3, 4], *m, d, &tp));
        }
    });
    ctx.count("direction_string_cases", djobs.len() as u64);
    // 3b. honest sessions in which a party first makes a local mistake (an output buffer one byte short, a
    // zero-length payload buffer) and then repeats the step correctly: messages are still exchanged
    // unmodified, so the session must still complete and agree
    let suite = patterns::all_protos_for_suite(DhAlg::X25519, CipherAlg::AesGcm, HashAlg::Blake2s);
    let rjobs: Vec<(&Proto, usize)> = suite.iter().flat_map(|p| (0..p.n_msgs()).map(move |k| (p, k))).collect();
    rjobs.par_iter().for_each(|(p, k)| {
        if let Some(cfg) = cfg_for(p, 5, Eph2::Scripted) {
            use crate::exec::{Cap, Msg};
            let mut ops = sess::full_session_ops(p, &[6, 6, 6, 6], Mode::TT, &[Side::I, Side::R], &[3, 3]);
            let w = sess::writer(*k);
            ops.insert(2 * k + 1, Op::HsRead { side: w.peer(), msg: Msg::Last(w), cap: Cap::Exact(0) });
            ops.insert(2 * k, Op::HsWrite { side: w, plen: 6, cap: Cap::NeedPlus(-1) });
            eval(&cfg, &ops);
            // ... and the same in the transport phase (both modes): a write into a buffer one byte short, a read into
            // a payload buffer one byte short, then the step done correctly
            if *k == 0 {
                for mode in [Mode::TT, Mode::SS] {
                    let dirs: Vec<Side> = if p.pattern.is_oneway() { vec![Side::I, Side::I, Side::I] } else { vec![Side::I, Side::R, Side::R, Side::I] };
                    let base = sess::full_session_ops(p, &[6, 6, 6, 6], mode, &dirs, &[3, 0, 20, 5]);
                    let mut ops = vec![];
                    for op in base {
                        match &op {
                            Op::TWrite { side, plen, .. } => ops.push(Op::TWrite { side: *side, plen: *plen, cap: Cap::NeedPlus(-1) }),
                            Op::SWrite { side, nonce, plen, .. } => ops.push(Op::SWrite { side: *side, nonce: *nonce, plen: *plen, cap: Cap::NeedPlus(-1) }),
                            Op::TRead { side, msg, .. } => ops.push(Op::TRead { side: *side, msg: msg.clone(), cap: Cap::NeedPlus(-1) }),
                            Op::SRead { side, nonce, msg, .. } => ops.push(Op::SRead { side: *side, nonce: *nonce, msg: msg.clone(), cap: Cap::NeedPlus(-1) }),
                            _ => {},
                        }
                        ops.push(op);
                    }
                    eval(&cfg, &ops);
                }
            }
        }
    });
    // 3b''. the caller's buffers may have any amount of slack: every write into a buffer of exactly the message
    // size plus k, every read into a payload buffer of exactly the payload size plus k (k below, at and above
    // the tag length), for every cipher x backend, handshake payloads and both transport modes
    {
        use crate::exec::{Cap, Msg};
        let combos = super::common::cipher_backends();
        let slack = [0isize, 1, 2, 7, 8, 15, 16, 17, 31, 100];
        let mut jobs: Vec<(refnoise::CipherAlg, crate::seam::Backend, &str, Mode, isize, isize)> = vec![];
        for (c, b) in &combos {
            for (pat, m) in [("XX", Mode::TT), ("IK", Mode::SS), ("N", Mode::TT), ("NNpsk0", Mode::SS)] {
                for kw in slack {
                    for kr in slack {
                        jobs.push((*c, *b, pat, m, kw, kr));
                    }
                }
            }
        }
        jobs.par_iter().for_each(|(c, b, pat, mode, kw, kr)| {
            let (base, psks): (&str, Vec<u8>) = if let Some(x) = pat.strip_suffix("psk0") { (x, vec![0]) } else { (pat, vec![]) };
            let p = super::common::proto(base, &psks, DhAlg::X25519, *c, HashAlg::Sha256);
            if let Some(mut cfg) = cfg_for(&p, 8, Eph2::Scripted) {
                cfg.backend = [*b, *b];
                let dirs: Vec<Side> = if p.pattern.is_oneway() { vec![Side::I, Side::I] } else { vec![Side::I, Side::R, Side::I] };
                let ops: Vec<Op> = sess::full_session_ops(&p, &[9, 0, 33, 1], *mode, &dirs, &[40, 0, 7])
                    .into_iter()
                    .map(|op| match op {
                        // (snow asks for 16 spare bytes in handshake writes even when the payload goes out in clear; the
                        // properties neither require nor forbid success with less, so the slack starts there)
                        Op::HsWrite { side, plen, .. } => Op::HsWrite { side, plen, cap: Cap::NeedPlus(16 + *kw) },
                        Op::HsRead { side, msg, .. } => Op::HsRead { side, msg, cap: Cap::NeedPlus(*kr) },
                        Op::TWrite { side, plen, .. } => Op::TWrite { side, plen, cap: Cap::NeedPlus(*kw) },
                        Op::TRead { side, msg, .. } => Op::TRead { side, msg, cap: Cap::NeedPlus(*kr) },
                        Op::SWrite { side, nonce, plen, .. } => Op::SWrite { side, nonce, plen, cap: Cap::NeedPlus(*kw) },
                        Op::SRead { side, nonce, msg, .. } => Op::SRead { side, nonce, msg, cap: Cap::NeedPlus(*kr) },
                        o => o,
                    })
                    .collect();
                let _: Option<Msg> = None;
                eval(&cfg, &ops);
            }
        });
        ctx.count("buffer_slack_cases", jobs.len() as u64);
    }
    ctx.count("local_retry_cases", rjobs.len() as u64);
    // 3b'. the PSKs the parties end up with are what counts, however they got there: both sides are built with
    // DIFFERENT provisional PSKs and then install the agreed ones through HandshakeState::set_psk (replacing
    // what the builder put there); the session must complete and agree like any other honest session
    let psk_names: Vec<&Proto> = suite.iter().filter(|p| !p.psks.is_empty()).collect();
    psk_names.par_iter().for_each(|p| {
        if let Some(mut cfg) = cfg_for(p, 6, Eph2::Scripted) {
            let mut pre = vec![];
            for (k, slot) in p.psks.iter().enumerate() {
                let loc = usize::from(*slot);
                // provisional values: the initiator's has one bit flipped, the responder's another (or is the agreed one)
                let good = cfg.psks[0][loc].unwrap();
                let mut a = good;
                a[(3 + k) % 32] ^= 0x10;
                let mut b = good;
                b[(17 + k) % 32] ^= 0x01;
                // psk_value_for() takes the first side that has a value: keep the agreed value findable by
                // installing it through the ops below with an explicit reference to the honest configuration
                cfg.psks[1][loc] = Some(if k % 2 == 0 { b } else { good });
                let _ = a;
                pre.push(Op::SetPsk { side: Side::R, loc, klen: 32 });
                pre.push(Op::SetPsk { side: Side::I, loc, klen: 32 });
            }
            // (a set_psk that refuses to replace a configured PSK leaves the parties with their different
            // provisional keys: no honest session, nothing to judge)
            let pe = Exec::run(&cfg, &pre);
            if pe.build_err.is_some() || pe.steps.iter().any(|s| !s.real.is_ok()) {
                ctx.count("psk replacement through set_psk refused (not judged)", 1);
                return;
            }
            let mut ops = pre;
            ops.extend(sess::full_session_ops(p, &[4, 4, 4, 4], Mode::TT, &[Side::I, Side::R], &[2, 2]));
            eval(&cfg, &ops);
        }
    });
    ctx.count("psk_replaced_by_set_psk_cases", psk_names.len() as u64);
    // 3b0. the plain way to supply a PSK after building: the builder is given none, both parties install every PSK
    // through set_psk (into empty slots) before the first message - an honest session like any other, so a refusal
    // of set_psk is judged here
    psk_names.par_iter().for_each(|p| {
        if let Some(cfg0) = cfg_for(p, 8, Eph2::Scripted) {
            let mut cfg = cfg0.clone();
            let mut pre = vec![];
            for slot in &p.psks {
                let loc = usize::from(*slot);
                // keep the value findable for the executor (it takes the first side that has one): the initiator's
                // builder is given nothing, the responder's neither - the value comes from the honest configuration
                cfg.psks[0][loc] = None;
                cfg.psks[1][loc] = None;
                pre.push(Op::SetPsk { side: Side::I, loc, klen: 32 });
                pre.push(Op::SetPsk { side: Side::R, loc, klen: 32 });
            }
            let mut ops = pre;
            ops.extend(sess::full_session_ops(p, &[3, 3, 3, 3], Mode::TS, &[Side::I, Side::R], &[2, 2]));
            eval(&cfg, &ops);
        }
    });
    ctx.count("psk_supplied_only_through_set_psk_cases", psk_names.len() as u64);
    // 3d. the two parties need not use the same backend: ring-preferring initiator with a default responder and the
    // other way round, every cipher x hash the ring backend serves (and one it does not), a spread of patterns
    {
        use crate::seam::Backend;
        let mut jobs = vec![];
        for c in [CipherAlg::ChaChaPoly, CipherAlg::AesGcm] {
            for h in [HashAlg::Sha256, HashAlg::Sha512, HashAlg::Blake2s] {
                for (pat, psks) in [("XX", vec![]), ("IK", vec![]), ("NN", vec![2u8]), ("N", vec![]), ("KK", vec![0u8]), ("X1X1", vec![])] {
                    for bk in [[Backend::Ring, Backend::Default], [Backend::Default, Backend::Ring], [Backend::DefaultRing, Backend::Ring]] {
                        jobs.push((c, h, pat, psks.clone(), bk));
                    }
                }
            }
        }
        jobs.par_iter().enumerate().for_each(|(k, (c, h, pat, psks, bk))| {
            let p = super::common::proto(pat, psks, DhAlg::X25519, *c, *h);
            if let Some(mut cfg) = cfg_for(&p, 9, Eph2::Scripted) {
                cfg.backend = *bk;
                let dirs: Vec<Side> = if p.pattern.is_oneway() { vec![Side::I, Side::I] } else { vec![Side::I, Side::R, Side::R, Side::I] };
                eval(&cfg, &sess::full_session_ops(&p, &[5, 0, 40, 1], if k % 2 == 0 { Mode::TT } else { Mode::SS }, &dirs, &[9, 0, 300, 2]));
            }
        });
        ctx.count("mixed_backend_cases", jobs.len() as u64);
    }
    // 3c. EVERY payload length (not an alphabet): transport payloads 0..=65519 for each cipher x backend, in
    // both directions, stateful and stateless; handshake payloads 0..=max for both messages of NN and the
    // message of N (the payload path does not depend on the pattern). One session serves a whole sweep.
    {
        use crate::exec::{Cap, Msg};
        let combos = super::common::cipher_backends();
        // quick: every length below 600 and above 64900, every 5th in between; thorough: every length
        let lens: Vec<usize> = (0..=65519usize).filter(|l| !quick || *l < 600 || *l > 64900 || l % 5 == 0).collect();
        let chunks: Vec<(usize, &[usize])> = lens.chunks(lens.len() / 12 + 1).enumerate().collect();
        let jobs: Vec<(refnoise::CipherAlg, crate::seam::Backend, Mode, Side, usize, &[usize])> = combos
            .iter()
            .flat_map(|(c, b)| chunks.iter().flat_map(move |(k, ch)| [(*c, *b, Mode::TT, Side::I, *k, *ch), (*c, *b, Mode::SS, Side::R, *k, *ch)]))
            .collect();
        jobs.par_iter().for_each(|(c, b, mode, w, _k, ch)| {
            let p = super::common::proto("NN", &[], DhAlg::X25519, *c, HashAlg::Sha256);
            let Some(mut cfg) = cfg_for(&p, 6, Eph2::Scripted) else { return };
            cfg.backend = [*b, *b];
            let mut ops = sess::handshake_ops(&p, &[0, 0]);
            ops.extend(sess::convert_ops(*mode));
            for (k, len) in ch.iter().enumerate() {
                if *mode == Mode::SS {
                    ops.push(Op::SWrite { side: *w, nonce: k as u64, plen: *len, cap: Cap::NeedPlus(0) });
                    ops.push(Op::SRead { side: w.peer(), nonce: k as u64, msg: Msg::Last(*w), cap: Cap::NeedPlus(0) });
                } else {
                    ops.push(Op::TWrite { side: *w, plen: *len, cap: Cap::NeedPlus(0) });
                    ops.push(Op::TRead { side: w.peer(), msg: Msg::Last(*w), cap: Cap::NeedPlus(0) });
                }
            }
            eval(&cfg, &ops);
            ctx.count("transport_payload_lengths_swept", ch.len() as u64);
        });
        // handshake payloads: one session per length
        let lens: Vec<usize> = (0..=65535usize).collect();
        let hp = [super::common::proto("NN", &[], DhAlg::X25519, CipherAlg::ChaChaPoly, HashAlg::Blake2s), super::common::proto("N", &[], DhAlg::X25519, CipherAlg::AesGcm, HashAlg::Sha256)];
        let step = if quick { 23 } else { 1 };
        for p in &hp {
            let ov = overheads(p);
            let Some(cfg) = cfg_for(p, 7, Eph2::Scripted) else { continue };
            lens.par_iter().step_by(step).for_each(|len| {
                let mut pl = vec![0usize; p.n_msgs()];
                let mut any = false;
                for k in 0..p.n_msgs() {
                    if *len <= 65535 - ov[k] {
                        pl[k] = *len;
                        any = true;
                    }
                }
                if any {
                    eval(&cfg, &sess::handshake_ops(p, &pl));
                }
            });
            ctx.count("handshake_payload_length_sessions", (lens.len() / step) as u64);
        }
    }
    // 4. labelled sample: OS randomness (not enumerable)
    base.par_iter().for_each(|p| {
        if let Some(cfg) = cfg_for(p, 4, Eph2::Os) {
            eval(&cfg, &sess::full_session_ops(p, &[1, 2, 3, 4], Mode::TT, &[Side::I, Side::R], &[9, 9]));
        }
    });
    ctx.count("os_rng_sample_runs (sample, not enumeration)", base.len() as u64);
    ctx.states.store(ctx.evaluations.load(std::sync::atomic::Ordering::Relaxed), std::sync::atomic::Ordering::Relaxed);
    if let Some(cfg) = cfg_for(&all[4242], 0, Eph2::Scripted) {
        ctx.sample(sess::case_json(&cfg, &sess::full_session_ops(&all[4242], &[5, 0, 33, 1], Mode::TS, &dirs6, &[0, 1, 17, 300, 2, 64])));
    }
    ctx.assume("OS randomness itself is not enumerated (a seam answer): the alphabet is the scripted streams; the OS-RNG runs are a labelled sample");
    ctx.assume("hfs/Kyber names are covered by the hfs build of this check (./check C02@hfs) when present; Curve448 has no resolver");
    ctx.assume("output buffers are roomy: snow demands 16 spare bytes even for clear payloads, which the property does not forbid");
    *ctx.exhaustive.lock().unwrap() = Some(false);
    let _ = SIDES;
    ctx.finish()
}

pub fn replay(case: &serde_json::Value) -> Result<(), String> {
    let (cfg, ops) = sess::case_from_json(case).ok_or("bad case")?;
    match check(&cfg, &ops).first() {
        Some((s, d)) => Err(format!("{s}: {d}\n{}", sess::describe_steps(&sess::run(&cfg, &ops)).join("\n"))),
        None => Ok(()),
    }
}
