//! C01 Wire-level conformance: every message snow produces is byte-for-byte the message
//! `refnoise` (bound to cacophony + KATs) defines for the same inputs; handshake hash and the
//! payload-encrypted indication are the specification's. E1: exhaustive product over all
//! 13 344 protocol names x role pair, deviation-bounded input variations.

use crate::{
    ctx::{Ctx, Tier},
    exec::{Cat, Config, Eph, Op, Side},
    seam::Backend,
    sess::{self, Mode},
};
use rayon::prelude::*;
use refnoise::{patterns, Proto};
use serde_json::json;
use std::sync::atomic::Ordering;

const CATS: [Cat; 6] = [Cat::WireBytes, Cat::WireAccept, Cat::GetterHash, Cat::GetterPayloadEncrypted, Cat::OutLen, Cat::EphemeralMismatch];

#[derive(Clone, Debug)]
pub struct Variation {
    pub ks: u8,
    pub prologue: Vec<u8>,
    pub hs_plens: Vec<usize>,
    pub mode: Mode,
    pub scripted: Option<u64>,
    pub t_plens: Vec<usize>,
    /// a failing write (buffer one byte short) before the write of message k, and a failing read
    /// (last bit flipped) before its read: the messages produced afterwards must still be the specification's
    pub fault_at: Option<usize>,
    pub tag: &'static str,
}

fn default_var() -> Variation {
    Variation { ks: 0, prologue: b"snowmc-p0".to_vec(), hs_plens: vec![3, 0, 17, 5], mode: Mode::TS, scripted: None, t_plens: vec![0, 1, 33, 7, 2, 9, 4, 6], fault_at: None, tag: "default" }
}

pub fn prologues() -> Vec<Vec<u8>> {
    let mut v: Vec<Vec<u8>> = vec![vec![], vec![0], vec![7; 32], vec![8; 64], vec![9; 65], vec![10; 129]];
    let with_zero: Vec<Vec<u8>> = v.iter().map(|p| { let mut q = p.clone(); q.push(0); q }).collect();
    v.extend(with_zero);
    v
}

/// deviation bound 1: each single change of the default vector
fn bound1(proto: &Proto) -> Vec<Variation> {
    let d = default_var();
    let mut out = vec![];
    out.push(Variation { ks: 1, tag: "keyset1", ..d.clone() });
    for p in prologues() {
        out.push(Variation { prologue: p, tag: "prologue", ..d.clone() });
    }
    let ov = refnoise::state::overheads(proto);
    for k in 0..proto.n_msgs() {
        let max = 65535 - ov[k];
        for pl in [0usize, 1, 15, 16, 17, 63, 64, 65, 255, 256, max - 1, max] {
            let mut pls = vec![0; proto.n_msgs()];
            pls[k] = pl;
            out.push(Variation { hs_plens: pls, tag: "payload", ..d.clone() });
        }
    }
    for m in [Mode::TT, Mode::SS, Mode::ST] {
        out.push(Variation { mode: m, tag: "mode", ..d.clone() });
    }
    for s in [11u64, 12] {
        out.push(Variation { scripted: Some(s), tag: "scripted-rng", ..d.clone() });
    }
    out.push(Variation { t_plens: vec![65519, 65519, 1000, 64], tag: "transport-max", ..d.clone() });
    for k in 0..proto.n_msgs() {
        out.push(Variation { fault_at: Some(k), tag: "after-failed-call", ..d.clone() });
    }
    // the raw-split query (a &mut self call) made by both parties before the first message and after every
    // handshake call: each answer is the reference Split() of that moment and nothing later changes
    out.push(Variation { tag: "raw-split-everywhere", ..d.clone() });
    // rekeys in the middle of the transport traffic, in every mode: automatic (both directions, synchronised) and
    // manual through each entry point; the messages after them must be the specification's under REKEY(k) / the
    // installed keys, at the unchanged nonces
    for m in [Mode::TT, Mode::SS, Mode::TS, Mode::ST] {
        out.push(Variation { mode: m, tag: "rekeys", ..d.clone() });
    }
    // out-of-order delivery (specification 11.4): a stateful receiver is pointed at each message's nonce with
    // set_receiving_nonce - forwards and BACKWARDS - and must accept exactly what the specification's SetNonce +
    // DecryptWithAd accepts, returning the written payload
    out.push(Variation { mode: Mode::TT, tag: "reorder", ..d.clone() });
    out.push(Variation { mode: Mode::ST, tag: "reorder", ..d.clone() });
    out
}

fn cfg_of(proto: &Proto, v: &Variation, backend: Backend) -> Config {
    let mut c = Config::honest(proto, v.ks);
    c.prologue = [v.prologue.clone(), v.prologue.clone()];
    c.backend = [backend, backend];
    if let Some(s) = v.scripted {
        c.eph = [Eph::Scripted(s), Eph::Scripted(s + 1000)];
    }
    c
}

fn ops_of(proto: &Proto, v: &Variation) -> Vec<Op> {
    let dirs = [Side::I, Side::R, Side::I, Side::I, Side::R, Side::R, Side::I, Side::R];
    let mut ops = sess::full_session_ops(proto, &v.hs_plens, v.mode, &dirs[..v.t_plens.len().min(8)], &v.t_plens);
    if v.tag == "raw-split-everywhere" {
        let n = 2 * proto.n_msgs();
        let mut with = vec![Op::RawSplit { side: Side::I }, Op::RawSplit { side: Side::R }];
        for (k, op) in ops.into_iter().enumerate() {
            with.push(op);
            if k < n {
                with.push(Op::RawSplit { side: Side::I });
                with.push(Op::RawSplit { side: Side::R });
            }
        }
        ops = with;
    }
    if v.tag == "reorder" {
        use crate::exec::{Cap, Msg};
        // replace the transport part: the initiator writes 6 messages, the responder reads them in the order 3,0,5,1,4,2
        let keep = 2 * proto.n_msgs() + 4;
        ops.truncate(keep);
        let stateless_w = v.mode == Mode::ST;
        let hs_written = (0..proto.n_msgs()).filter(|k| sess::writer(*k) == Side::I).count();
        for j in 0..6usize {
            ops.push(if stateless_w { Op::SWrite { side: Side::I, nonce: j as u64, plen: 3 + j, cap: Cap::Roomy } } else { Op::TWrite { side: Side::I, plen: 3 + j, cap: Cap::Roomy } });
        }
        for j in [3usize, 0, 5, 1, 4, 2] {
            ops.push(Op::SetRecvNonce { side: Side::R, n: j as u64 });
            ops.push(Op::TRead { side: Side::R, msg: Msg::Wire(Side::I, hs_written + j), cap: Cap::Roomy });
        }
    }
    if v.tag == "rekeys" {
        // the 8 transport messages are 16 ops at the end: rekeys after the 2nd, 4th and 6th message
        let t0 = ops.len() - 2 * v.t_plens.len().min(8).min(if proto.pattern.is_oneway() { dirs.iter().take(v.t_plens.len().min(8)).filter(|s| **s == Side::I).count() } else { 8 });
        let groups: [Vec<Op>; 3] = [
            vec![Op::RekeyOut { side: Side::I }, Op::RekeyIn { side: Side::R }, Op::RekeyOut { side: Side::R }, Op::RekeyIn { side: Side::I }],
            vec![Op::RekeyManual { side: Side::I, i: Some(1), r: Some(2) }, Op::RekeyManual { side: Side::R, i: Some(1), r: Some(2) }],
            vec![Op::RekeyInitManual { side: Side::I, k: 3 }, Op::RekeyInitManual { side: Side::R, k: 3 }, Op::RekeyRespManual { side: Side::R, k: 4 }, Op::RekeyRespManual { side: Side::I, k: 4 }, Op::RekeyIn { side: Side::R }, Op::RekeyOut { side: Side::I }],
        ];
        for (g, grp) in groups.iter().enumerate().rev() {
            let at = t0 + 4 * (g + 1);
            if at <= ops.len() {
                for (j, o) in grp.iter().enumerate() {
                    ops.insert(at + j, o.clone());
                }
            }
        }
    }
    if let Some(k) = v.fault_at {
        use crate::exec::{Alter, Cap, Msg};
        let w = sess::writer(k);
        let plen = v.hs_plens.get(k).copied().unwrap_or(0);
        // ops[2k] is the write of message k, ops[2k+1] its read
        ops.insert(2 * k + 1, Op::HsRead { side: w.peer(), msg: Msg::Altered(Box::new(Msg::Last(w)), Alter::FlipLast), cap: Cap::Roomy });
        ops.insert(2 * k, Op::HsWrite { side: w, plen, cap: Cap::NeedPlus(-1) });
    }
    ops
}

fn check_case(ctx: &Ctx, cfg: &Config, ops: &[Op]) {
    check_case_opt(ctx, cfg, ops, false)
}

/// `build_may_fail`: the configuration asks the builder / parser for something C01 does not promise (a PSK for a
/// name without psk modifier; a name that spells its modifiers in an unusual order - whether that parses is C13's
/// clause). If snow refuses it there is no message to compare; if it accepts, the bytes are judged as always.
fn check_case_opt(ctx: &Ctx, cfg: &Config, ops: &[Op], build_may_fail: bool) {
    let e = sess::run(cfg, ops);
    ctx.add(&ctx.evaluations, 1);
    ctx.add(&ctx.transitions, e.steps.len() as u64);
    if build_may_fail && e.build_err.is_some() {
        ctx.count("configuration refused at build time (not judged by C01)", 1);
        return;
    }
    if let Some(b) = &e.build_err {
        ctx.violation("build of an honest configuration failed", format!("{}: {b}", cfg.name), sess::case_json(cfg, ops));
        return;
    }
    // every step compared with the reference => a validated trace
    if !e.desync {
        ctx.add(&ctx.traces, 1);
    }
    let expected_fail = |s: &crate::exec::StepRecord| matches!(s.expect, crate::exec::Expect::Err(_) | crate::exec::Expect::Either(..));
    let honest_ok = e.steps.iter().all(|s| s.real.is_ok() || expected_fail(s));
    if honest_ok {
        ctx.add(&ctx.nontrivial, 1);
    }
    for m in sess::filter(&e, &CATS) {
        ctx.violation(sess::signature(&e, m), format!("{}: {}", cfg.name, m.detail), sess::case_json(cfg, ops));
    }
    // an honest run in which the reference and snow disagree on success is also a wire-level fact:
    // the reference rejects (or accepts) what snow accepts (rejects)
    if !honest_ok {
        if let Some((k, s)) = e.steps.iter().enumerate().find(|(_, s)| !s.real.is_ok() && !expected_fail(s)) {
            ctx.violation(
                format!("honest session step failed at {}", sess::op_kind(&s.op)),
                format!("{}: step {k} {:?} -> {}", cfg.name, s.op, s.real.short()),
                sess::case_json(cfg, ops),
            );
        }
    }
}


// ---------------------------------------------------------------------------------------------
// E2: call ORDERS the fixed honest schedule never uses. Explicit-state BFS (stateright, implementation in the loop)
// in which the honest session advances step by step and, between its steps, up to `devs` other calls are made:
// the raw-split query by either party, set_psk (supplying a PSK the builder was not given, or re-supplying one it
// was), a write into a buffer one byte short, a read of the genuine message into an empty payload buffer. Every
// message, the handshake hash, the payload-encrypted flag and every raw-split answer is compared with the full
// reference model, which follows the same calls.

fn e2_spec(p: &Proto, late_psk: bool, devs: usize) -> crate::engine::seqmc::SeqSpec {
    use crate::exec::{APhase, Cap, Exec, Msg, SIDES};
    use std::sync::Arc;
    let mut cfg = cfg_of(p, &default_var(), Backend::Default);
    cfg.record = true;
    if late_psk {
        for q in &p.psks {
            cfg.psks[0][usize::from(*q)] = None;
            cfg.psks[1][usize::from(*q)] = None;
        }
    }
    let dirs: Vec<Side> = if p.pattern.is_oneway() { vec![Side::I, Side::I] } else { vec![Side::I, Side::R] };
    // stateful transport on both sides: every honest step must change the state (a stateless read is a self-loop
    // that state merging would cut, see 10.9)
    let honest: Vec<Op> = sess::full_session_ops(p, &[3, 0, 17, 5], Mode::TT, &dirs, &[4, 0]).into_iter().filter(|o| !matches!(o, Op::RawSplit { .. })).collect();
    let psks: Vec<usize> = p.psks.iter().map(|q| usize::from(*q)).collect();
    let hh = honest.clone();
    let alphabet = Arc::new(move |e: &Exec| {
        let mut a: Vec<(Op, bool)> = vec![];
        let done = e.steps.iter().filter(|s| s.real.is_ok() && hh.contains(&s.op)).count();
        if let Some(next) = hh.get(done) {
            a.push((next.clone(), false));
        }
        for s in SIDES {
            let ab = &e.abs[s.idx()];
            if ab.phase != APhase::Hs {
                continue;
            }
            for loc in &psks {
                // supplying a missing PSK is part of the honest run; re-supplying the same one is a deviation
                a.push((Op::SetPsk { side: s, loc: *loc, klen: 32 }, ab.psk_set[*loc]));
            }
            a.push((Op::RawSplit { side: s }, true));
            let my_turn = (ab.pos % 2 == 0) == s.is_init();
            if ab.pos < e.proto.n_msgs() {
                if my_turn {
                    a.push((Op::HsWrite { side: s, plen: 3, cap: Cap::NeedPlus(-1) }, true));
                } else if e.wires[s.peer().idx()].len() > ab.pos / 2 {
                    a.push((Op::HsRead { side: s, msg: Msg::Last(s.peer()), cap: Cap::Exact(0) }, true));
                }
            }
        }
        a
    });
    let hh2 = honest.clone();
    let judge = Arc::new(move |e: &Exec| {
        let mut v: Vec<(String, String)> = sess::filter(e, &CATS).into_iter().map(|m| (format!("{} (unusual call order)", sess::signature(e, m)), format!("{}: {}", e.cfg.name, m.detail))).collect();
        for (k, st) in e.steps.iter().enumerate() {
            if hh2.contains(&st.op) && !st.real.is_ok() && matches!(st.expect, crate::exec::Expect::Ok(_)) {
                v.push((format!("honest session step failed at {} (unusual call order)", sess::op_kind(&st.op)), format!("{}: step {k} {:?} -> {}", e.cfg.name, st.op, st.real.short())));
                break;
            }
        }
        v
    });
    let total = honest.len();
    let hh3 = honest;
    let goal = Arc::new(move |e: &Exec| e.steps.iter().filter(|s| s.real.is_ok() && hh3.contains(&s.op)).count() >= total);
    let extra = if late_psk { 2 * p.psks.len() } else { 0 };
    crate::engine::seqmc::SeqSpec { cfg, prefix: vec![], max_depth: total + devs + extra, max_devs: devs, alphabet, judge, goal }
}

fn e2(ctx: &Ctx) {
    let devs = if ctx.quick() { 2 } else { 3 };
    let suites = patterns::all_suites();
    let mut specs = vec![];
    for (k, b) in patterns::base_patterns().iter().enumerate() {
        let (dh, c, h) = suites[k % suites.len()];
        if ctx.quick() && dh == refnoise::DhAlg::P256 && k % 3 != 0 {
            // P-256 costs ~10x per DH: a third of those in the quick tier, on the 25519 twin of the suite otherwise
            let p = Proto::new(b, &[], refnoise::DhAlg::X25519, c, h).unwrap();
            specs.push((e2_spec(&p, false, devs), p.name.clone()));
        } else {
            let p = Proto::new(b, &[], dh, c, h).unwrap();
            specs.push((e2_spec(&p, false, devs), p.name.clone()));
        }
        // a psk variant, its PSKs supplied through set_psk during the exploration (any order, any time before use)
        let (_, c2, h2) = suites[(k + 5) % suites.len()];
        let last = b.msgs.len() as u8;
        let q = Proto::new(b, &[[0u8, 1, last][k % 3].min(last)], refnoise::DhAlg::X25519, c2, h2).unwrap();
        specs.push((e2_spec(&q, true, devs.min(2)), format!("{} (psk through set_psk)", q.name)));
    }
    specs.par_iter().for_each(|(s, label)| {
        let r = crate::engine::seqmc::explore(s.clone());
        if std::env::var("C01_DEBUG").is_ok() && !r.goal_reached {

            eprintln!("{label}: states {} transitions {} max_depth {} (bound {}) outcomes {:?}", r.states, r.transitions, r.max_depth, s.max_depth, r.outcomes);
        }
        super::common::absorb(ctx, s, &r, label);
    });
    ctx.count("e2_explorations", specs.len() as u64);
}

pub fn run(tier: Tier) -> i32 {
    let ctx = Ctx::new("C01", tier, "model_checking");
    ctx.bind_model();
    ctx.set_rule("case = (protocol name, key set, prologue, payload lengths, transport mode, rng mode, psks given to the builder / through set_psk / given although the name has no psk modifier); every message, handshake hash and payload-encrypted flag compared with refnoise; non-trivial = the honest session ran to completion (handshake + 8 transport messages) with every step compared; states = distinct cases; plus an explicit-state BFS per base pattern (and a psk variant whose PSKs arrive through set_psk) over call orders: the honest session with up to 2 (thorough 3) other calls - raw-split query, set_psk, failing write / read - at any points, every step against the full reference model");
    let all = patterns::all_protos();
    ctx.set("names", json!(all.len()));
    // part 1: all 13 344 names, default vector, default backend
    let d = default_var();
    all.par_iter().for_each(|p| {
        let cfg = cfg_of(p, &d, Backend::Default);
        check_case(&ctx, &cfg, &ops_of(p, &d));
    });
    ctx.count("names_default_vector", all.len() as u64);
    // part 1b: the same with the ring backend preferred on both endpoints (ring serves SHA-2, ChaChaPoly and
    // AESGCM; everything else falls back to the default backend) - the bytes must be the specification's
    // whichever backend computes them
    let mut dr = default_var();
    dr.mode = Mode::ST;
    all.par_iter().for_each(|p| {
        let cfg = cfg_of(p, &dr, Backend::Ring);
        check_case(&ctx, &cfg, &ops_of(p, &dr));
    });
    ctx.count("names_default_vector_ring_backend", all.len() as u64);
    // part 1c: the same set of psk modifiers spelled in another order is another protocol name (the name is
    // hashed verbatim): every base pattern x every psk subset of size >= 2 x {reversed, rotated, one adjacent
    // swap} on a rotating suite, both transport modes
    {
        let suites = patterns::all_suites();
        let mut perm: Vec<Proto> = vec![];
        let mut k = 0usize;
        for b in patterns::base_patterns() {
            for ps in patterns::psk_subsets(b.msgs.len()).into_iter().filter(|ps| ps.len() >= 2) {
                let mut orders: Vec<Vec<u8>> = vec![ps.iter().rev().copied().collect()];
                let mut rot = ps.clone();
                rot.rotate_left(1);
                orders.push(rot);
                for j in 0..ps.len() - 1 {
                    let mut sw = ps.clone();
                    sw.swap(j, j + 1);
                    orders.push(sw);
                }
                orders.sort();
                orders.dedup();
                for o in orders {
                    let (dh, c, h) = suites[k % suites.len()];
                    k += 1;
                    perm.push(Proto::new(&b, &o, dh, c, h).unwrap());
                }
            }
        }
        let perm: Vec<Proto> = if ctx.quick() { perm.into_iter().step_by(3).collect() } else { perm };
        ctx.count("names_with_reordered_modifiers", perm.len() as u64);
        perm.par_iter().enumerate().for_each(|(j, p)| {
            let mut v = default_var();
            if j % 2 == 1 {
                v.mode = Mode::ST;
            }
            let cfg = cfg_of(p, &v, if j % 4 >= 2 { Backend::Ring } else { Backend::Default });
            check_case_opt(&ctx, &cfg, &ops_of(p, &v), true);
        });
    }
    // part 2: bound-1 input variations
    let suites: Vec<Proto> = if ctx.quick() {
        // NAMES/suite on 25519/ChaChaPoly/SHA256 + NAMES/hs38 on every suite
        let mut v = patterns::all_protos_for_suite(refnoise::DhAlg::X25519, refnoise::CipherAlg::ChaChaPoly, refnoise::HashAlg::Blake2s);
        for (dh, c, h) in patterns::all_suites() {
            for b in patterns::base_patterns() {
                v.push(Proto::new(&b, &[], dh, c, h).unwrap());
            }
        }
        v
    } else {
        all.clone()
    };
    let cases: Vec<(Proto, Variation)> = suites
        .iter()
        .flat_map(|p| {
            let mut vs = bound1(p);
            if ctx.quick() {
                // the long-payload variations cost a 64 KiB AEAD each: keep max and max-1 for the first and last message only
                let n = p.n_msgs();
                vs.retain(|v| v.tag != "payload" || v.hs_plens.iter().all(|l| *l < 1000) || v.hs_plens[0] > 1000 || v.hs_plens[n - 1] > 1000);
            }
            vs.into_iter().map(move |v| (p.clone(), v))
        })
        .collect();
    ctx.count("bound1_cases", cases.len() as u64);
    cases.par_iter().for_each(|(p, v)| {
        let cfg = cfg_of(p, v, Backend::Default);
        check_case(&ctx, &cfg, &ops_of(p, v));
    });
    // part 2b: how the PSKs reach the state must not matter. (i) every psk name of a suite with the PSKs left out of
    // the builder and supplied through HandshakeState::set_psk before the first message; (ii) names WITHOUT a psk
    // modifier whose builder is nevertheless given a PSK (slot 0 or 1): the specification has no psk token there,
    // so nothing of it may reach the wire. Bytes, hash and payload-encrypted flag against the reference as always.
    {
        let suite = patterns::all_protos_for_suite(refnoise::DhAlg::X25519, refnoise::CipherAlg::AesGcm, refnoise::HashAlg::Sha256);
        let d = default_var();
        suite.par_iter().for_each(|p| {
            let mut cfg = cfg_of(p, &d, Backend::Default);
            let mut ops = vec![];
            if p.psks.is_empty() {
                let slot = p.n_msgs() % 2;
                cfg.psks[0][slot] = Some(crate::exec::psk_bytes(slot as u8, 3));
                cfg.psks[1][slot] = Some(crate::exec::psk_bytes(slot as u8, 3));
            } else {
                for q in &p.psks {
                    let loc = usize::from(*q);
                    cfg.psks[0][loc] = None;
                    cfg.psks[1][loc] = None;
                    ops.push(Op::SetPsk { side: Side::I, loc, klen: 32 });
                    ops.push(Op::SetPsk { side: Side::R, loc, klen: 32 });
                }
            }
            ops.extend(ops_of(p, &d));
            check_case_opt(&ctx, &cfg, &ops, p.psks.is_empty());
        });
        ctx.count("psk_supplied_late_or_unused_cases", suite.len() as u64);
    }
    // part 2c: unusual call orders (explicit-state search)
    e2(&ctx);
    // part 3 (thorough): pairs of changes on NAMES/suite
    if !ctx.quick() {
        let suite = patterns::all_protos_for_suite(refnoise::DhAlg::X25519, refnoise::CipherAlg::AesGcm, refnoise::HashAlg::Sha512);
        let pairs: Vec<(Proto, Variation)> = suite
            .iter()
            .flat_map(|p| {
                let b = bound1(p);
                let mut out = vec![];
                for x in &b {
                    for y in &b {
                        if x.tag < y.tag && x.hs_plens.iter().chain(y.hs_plens.iter()).all(|l| *l < 1000) {
                            let mut v = x.clone();
                            match y.tag {
                                "keyset1" => v.ks = y.ks,
                                "prologue" => v.prologue = y.prologue.clone(),
                                "payload" => v.hs_plens = y.hs_plens.clone(),
                                "mode" => v.mode = y.mode,
                                "scripted-rng" => v.scripted = y.scripted,
                                "after-failed-call" => v.fault_at = y.fault_at,
                                _ => v.t_plens = y.t_plens.clone(),
                            }
                            v.tag = "pair";
                            out.push((p.clone(), v));
                        }
                    }
                }
                out
            })
            .collect();
        ctx.count("bound2_cases", pairs.len() as u64);
        pairs.par_iter().for_each(|(p, v)| {
            let cfg = cfg_of(p, v, Backend::Default);
            check_case(&ctx, &cfg, &ops_of(p, v));
        });
    }
    // part 4 (thorough): key material from single-bit alphabets (every bit of each psk / static / ephemeral
    // private key, one at a time) on patterns that use all of them
    if !ctx.quick() {
        let names: Vec<Proto> = ["XX", "IK", "KK", "X1X1"].iter().flat_map(|b| {
            let bp = patterns::base_patterns().into_iter().find(|p| p.name == *b).unwrap();
            let n = bp.msgs.len() as u8;
            vec![Proto::new(&bp, &[0, n], refnoise::DhAlg::X25519, refnoise::CipherAlg::ChaChaPoly, refnoise::HashAlg::Sha512).unwrap(), Proto::new(&bp, &[1], refnoise::DhAlg::P256, refnoise::CipherAlg::AesGcm, refnoise::HashAlg::Blake2s).unwrap()]
        }).collect();
        let jobs: Vec<(Proto, usize, usize)> = names.iter().flat_map(|p| (0..5usize).flat_map(move |which| (0..256usize).map(move |bit| (p.clone(), which, bit)))).collect();
        ctx.count("single_bit_key_cases", jobs.len() as u64);
        jobs.par_iter().for_each(|(p, which, bit)| {
            let mut cfg = cfg_of(p, &d, Backend::Default);
            let mut k = [0u8; 32];
            k[bit / 8] = 1 << (bit % 8);
            // P-256 scalars must stay below n: keep the top byte clear for private keys
            let mut sk = k.to_vec();
            if p.dh == refnoise::DhAlg::P256 {
                sk[0] &= 0x7f;
                if sk.iter().all(|b| *b == 0) {
                    sk[31] = 1;
                }
            }
            let pk = |s: &Vec<u8>| p.dh.pubkey(s);
            match which {
                0 => {
                    if cfg.s_priv[0].is_some() {
                        cfg.s_priv[0] = Some(sk.clone());
                        if cfg.rs_pub[1].is_some() {
                            cfg.rs_pub[1] = pk(&sk);
                        }
                    }
                },
                1 => {
                    if cfg.s_priv[1].is_some() {
                        cfg.s_priv[1] = Some(sk.clone());
                        if cfg.rs_pub[0].is_some() {
                            cfg.rs_pub[0] = pk(&sk);
                        }
                    }
                },
                2 => cfg.eph[0] = Eph::Fixed(sk.clone()),
                3 => cfg.eph[1] = Eph::Fixed(sk.clone()),
                _ => {
                    for s in 0..2 {
                        for slot in cfg.psks[s].iter_mut() {
                            if slot.is_some() {
                                *slot = Some(k);
                            }
                        }
                    }
                },
            }
            check_case(&ctx, &cfg, &ops_of(p, &d));
        });
    }
    ctx.states.store(ctx.evaluations.load(Ordering::Relaxed), Ordering::Relaxed);
    let p0 = &all[0];
    ctx.sample(sess::case_json(&cfg_of(p0, &d, Backend::Default), &ops_of(p0, &d)));
    ctx.sample(json!({"name": all[7000].name, "variation": "default vector"}));
    ctx.assume("byte values of keys/payloads/prologues come from small structured alphabets (snow has no branch on them); lengths, names and modes are enumerated");
    ctx.assume("refnoise is the specification: bound to 472 cacophony vectors and standard KATs at the start of this run; BLAKE2 shares its implementation with snow (anchored by KATs and vectors)");
    ctx.assume("Curve448 is not provided by any resolver and is not covered");
    *ctx.exhaustive.lock().unwrap() = Some(false);
    ctx.finish()
}

pub fn replay(case: &serde_json::Value) -> Result<(), String> {
    let (cfg, ops) = sess::case_from_json(case).ok_or("bad case")?;
    let e = sess::run(&cfg, &ops);
    if let Some(b) = &e.build_err {
        return Err(b.clone());
    }
    if let Some(m) = sess::filter(&e, &CATS).first() {
        return Err(format!("{}: {}\n{}", cfg.name, m.detail, sess::describe_steps(&e).join("\n")));
    }
    let expected_fail = |s: &crate::exec::StepRecord| matches!(s.expect, crate::exec::Expect::Err(_) | crate::exec::Expect::Either(..));
    if let Some((k, s)) = e.steps.iter().enumerate().find(|(_, s)| !s.real.is_ok() && !expected_fail(s)) {
        return Err(format!("{}: honest step {k} {:?} -> {}", cfg.name, s.op, s.real.short()));
    }
    Ok(())
}
