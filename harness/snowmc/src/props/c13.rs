//! C13 Protocol-name parser accepts exactly the Noise name grammar (E1).
//! Oracle: the reference recogniser `refnoise::patterns::recognise` written from spec section 8
//! and snow's documented extensions; a declared don't-care set (psk numbers with leading zeros).

use crate::ctx::{Ctx, Tier};
use rayon::prelude::*;
use refnoise::patterns::{recognise, Features, Modifier, PATTERN_NAMES};
use serde_json::json;
use snow::params::{HandshakeModifier, NoiseParams};
use std::panic::{catch_unwind, AssertUnwindSafe};

pub fn features() -> Features {
    Features { p256: true, xchacha: true, hfs: cfg!(feature = "hfs") }
}

fn dh_name(p: &NoiseParams) -> String {
    match format!("{:?}", p.dh).as_str() {
        "Curve25519" => "25519".into(),
        "Curve448" => "448".into(),
        x => x.to_string(),
    }
}
fn hash_name(p: &NoiseParams) -> String {
    match format!("{:?}", p.hash).as_str() {
        "Blake2s" => "BLAKE2s".into(),
        "Blake2b" => "BLAKE2b".into(),
        x => x.to_string(),
    }
}
fn mods(p: &NoiseParams) -> Vec<Modifier> {
    p.handshake
        .modifiers
        .list
        .iter()
        .map(|m| match m {
            HandshakeModifier::Psk(n) => Modifier::Psk(*n),
            HandshakeModifier::Fallback => Modifier::Fallback,
            #[cfg(feature = "hfs")]
            HandshakeModifier::Hfs => Modifier::Hfs,
        })
        .collect()
}
#[cfg(feature = "hfs")]
fn kem_name(p: &NoiseParams) -> Option<String> {
    p.kem.map(|k| format!("{k:?}"))
}
#[cfg(not(feature = "hfs"))]
fn kem_name(_: &NoiseParams) -> Option<String> {
    None
}

/// Judge one string. Err((signature, detail)) on a violation.
pub fn judge(s: &str) -> Result<&'static str, (String, String)> {
    let want = recognise(s, &features());
    let got = catch_unwind(AssertUnwindSafe(|| s.parse::<NoiseParams>()));
    let got = match got {
        Ok(g) => g,
        Err(_) => return Err(("parse panicked".into(), format!("{s:?}"))),
    };
    match (want, got) {
        (Some(w), _) if w.dont_care => Ok("dont-care"),
        (Some(w), Ok(p)) => {
            if p.name != s {
                return Err(("parsed name is not the input verbatim".into(), format!("{s:?} -> {:?}", p.name)));
            }
            // the modifiers are compared in the order the name spells them, except that the order of the psk modifiers
            // among themselves is not judged: a psk modifier carries its position in itself, so a parser that keeps
            // them sorted names the same components (what the handshake hashes is `name`, compared verbatim above).
            // Where a pattern-transforming modifier (fallback, hfs) stands relative to the others is part of how the
            // name spells the protocol and is compared.
            let canon = |v: Vec<Modifier>| {
                let mut psks: Vec<Modifier> = v.iter().filter(|m| matches!(m, Modifier::Psk(_))).cloned().collect();
                psks.sort_by_key(|m| if let Modifier::Psk(n) = m { *n } else { 0 });
                let mut it = psks.into_iter();
                v.into_iter().map(|m| if matches!(m, Modifier::Psk(_)) { it.next().unwrap() } else { m }).collect::<Vec<_>>()
            };
            let ok = p.handshake.pattern.as_str() == w.pattern && canon(mods(&p)) == canon(w.modifiers.clone()) && dh_name(&p) == w.dh && format!("{:?}", p.cipher) == w.cipher && hash_name(&p) == w.hash && kem_name(&p) == w.kem;
            if ok {
                Ok("accepted")
            } else {
                Err(("parsed components differ from the name".into(), format!("{s:?}: got pattern {} mods {:?} dh {} cipher {:?} hash {}; want {w:?}", p.handshake.pattern.as_str(), mods(&p), dh_name(&p), p.cipher, hash_name(&p))))
            }
        },
        (Some(_), Err(e)) => Err(("valid name rejected".into(), format!("{s:?}: {e:?}"))),
        (None, Ok(_)) => Err(("invalid name accepted".into(), format!("{s:?}"))),
        (None, Err(snow::Error::Pattern(_))) => Ok("rejected"),
        (None, Err(e)) => Err(("rejection is not a pattern error".into(), format!("{s:?}: {e:?}"))),
    }
}

fn mod_lists(max_len: usize) -> Vec<String> {
    let items = ["psk0", "psk1", "psk2", "psk3", "psk4", "psk9", "psk10", "psk255", "fallback"];
    let mut out = vec![String::new()];
    let mut cur: Vec<Vec<usize>> = vec![vec![]];
    for _ in 0..max_len {
        let mut next = vec![];
        for l in &cur {
            for i in 0..items.len() {
                if !l.contains(&i) {
                    let mut m = l.clone();
                    m.push(i);
                    out.push(m.iter().map(|k| items[*k]).collect::<Vec<_>>().join("+"));
                    next.push(m);
                }
            }
        }
        cur = next;
    }
    out
}

fn suites() -> Vec<String> {
    let mut v = vec![];
    for d in ["25519", "448", "P256"] {
        for c in ["ChaChaPoly", "AESGCM", "XChaChaPoly"] {
            for h in ["SHA256", "SHA512", "BLAKE2s", "BLAKE2b"] {
                v.push(format!("{d}_{c}_{h}"));
            }
        }
    }
    v
}

fn single_edits(s: &str) -> Vec<String> {
    let chars: Vec<char> = s.chars().collect();
    let alphabet: Vec<char> = "_+pskf019NXKI1nx \0\u{e9}\u{2603}".chars().collect();
    let mut out = vec![];
    for i in 0..chars.len() {
        // delete, duplicate, case flip, replace
        let mut d = chars.clone();
        d.remove(i);
        out.push(d.iter().collect());
        let mut d = chars.clone();
        d.insert(i, chars[i]);
        out.push(d.iter().collect());
        let c = chars[i];
        let f = if c.is_ascii_lowercase() { c.to_ascii_uppercase() } else { c.to_ascii_lowercase() };
        if f != c {
            let mut d = chars.clone();
            d[i] = f;
            out.push(d.iter().collect());
        }
        for a in &alphabet {
            if *a != c {
                let mut d = chars.clone();
                d[i] = *a;
                out.push(d.iter().collect());
            }
        }
    }
    for i in 0..=chars.len() {
        for a in &alphabet {
            let mut d = chars.clone();
            d.insert(i, *a);
            out.push(d.iter().collect());
        }
    }
    out
}

pub fn run(tier: Tier) -> i32 {
    let ctx = Ctx::new("C13", tier, "model_checking");
    // (the deeper alphabets cost well under a minute: the quick tier runs them too)
    let quick = false;
    ctx.set_rule("every generated string is parsed by snow and by the reference recogniser: (a) the full product pattern x modifier lists (length <= 3 over psk0-4, psk9, psk10, psk255, fallback, every order) x 36 suites; (b) every single-edit mutation (delete/duplicate/case-flip/replace/insert with separators, digits, pattern letters, NUL, space, 2- and 3-byte UTF-8) of valid names, and every substring of 2..=8 bytes doubled in place or removed; (c) all strings of length <= 6 (thorough 7) over {N,K,X,I,1,p,s,k,0,+} as the handshake field; (d) field-count variations; accept iff recognised, components and verbatim name equal, rejection is Error::Pattern. states = distinct strings");
    let outcomes = std::sync::Mutex::new(std::collections::BTreeMap::<&'static str, u64>::new());
    let eval = |s: &str| {
        ctx.add(&ctx.evaluations, 1);
        match judge(s) {
            Ok(o) => {
                *outcomes.lock().unwrap().entry(o).or_insert(0) += 0; // placeholder to register the key cheaply
                o
            },
            Err((sig, d)) => {
                ctx.violation(sig, d, json!({"kind": "name", "name": s}));
                "violation"
            },
        }
    };
    // (a) valid product
    let lists = mod_lists(3);
    let ss = suites();
    let mut names_a: Vec<String> = vec![];
    for p in PATTERN_NAMES {
        for l in &lists {
            for s in &ss {
                names_a.push(format!("Noise_{p}{l}_{s}"));
            }
        }
    }
    let acc = std::sync::atomic::AtomicU64::new(0);
    let rej = std::sync::atomic::AtomicU64::new(0);
    let tally = |o: &str| {
        if o == "accepted" {
            acc.fetch_add(1, std::sync::atomic::Ordering::Relaxed);
        } else if o == "rejected" {
            rej.fetch_add(1, std::sync::atomic::Ordering::Relaxed);
        }
    };
    names_a.par_iter().for_each(|s| tally(eval(s)));
    ctx.count("a_valid_product", names_a.len() as u64);
    // (b) single edits of a spread of valid names
    let step = names_a.len() / if quick { 600 } else { 4000 };
    let seeds: Vec<&String> = names_a.iter().step_by(step.max(1)).collect();
    let nb = std::sync::atomic::AtomicU64::new(0);
    seeds.par_iter().for_each(|s| {
        for m in single_edits(s) {
            tally(eval(&m));
            nb.fetch_add(1, std::sync::atomic::Ordering::Relaxed);
        }
    });
    ctx.count("b_single_edit_mutations", nb.load(std::sync::atomic::Ordering::Relaxed));
    // (b') multi-character edits: every substring of 2..=8 bytes doubled in place ("pskpsk0", "Noise_Noise_",
    // "psk0+psk0+") and removed, on every 3rd of those names
    let nb2 = std::sync::atomic::AtomicU64::new(0);
    seeds.par_iter().step_by(3).for_each(|s| {
        let b = s.as_bytes();
        for len in 2..=8usize {
            for i in 0..=b.len().saturating_sub(len) {
                let mut dup = b[..i + len].to_vec();
                dup.extend_from_slice(&b[i..]);
                let mut del = b[..i].to_vec();
                del.extend_from_slice(&b[i + len..]);
                for m in [dup, del] {
                    if let Ok(m) = String::from_utf8(m) {
                        tally(eval(&m));
                        nb2.fetch_add(1, std::sync::atomic::Ordering::Relaxed);
                    }
                }
            }
        }
    });
    ctx.count("b2_substring_doublings_and_removals", nb2.load(std::sync::atomic::Ordering::Relaxed));
    // (c) all short strings in the handshake field
    let alpha = ['N', 'K', 'X', 'I', '1', 'p', 's', 'k', '0', '+'];
    let maxlen = if quick { 6 } else { 7 };
    let mut total = 0u64;
    for len in 0..=maxlen {
        let n = 10u64.pow(len as u32);
        total += n;
        (0..n).into_par_iter().for_each(|mut k| {
            let mut f = String::with_capacity(len);
            for _ in 0..len {
                f.push(alpha[(k % 10) as usize]);
                k /= 10;
            }
            tally(eval(&format!("Noise_{f}_25519_AESGCM_SHA256")));
        });
    }
    ctx.count("c_short_handshake_fields", total);
    // (d) field counts, empty fields, base, primitives
    let mut d: Vec<String> = vec!["".into(), "Noise".into(), "Noise_".into(), "_".into(), "____".into(), "Noise_XX_25519_AESGCM".into(), "Noise_XX_25519_AESGCM_SHA256_".into(), "Noise_XX_25519_AESGCM_SHA256_X".into(), "Noise__25519_AESGCM_SHA256".into(), "Noise_XX__AESGCM_SHA256".into(), "Noise_XX_25519__SHA256".into(), "Noise_XX_25519_AESGCM_".into(), "noise_XX_25519_AESGCM_SHA256".into(), "NoisePSK_XX_25519_AESGCM_SHA256".into(), "Noise_XX_25519_AESGCM_SHA256\n".into(), " Noise_XX_25519_AESGCM_SHA256".into()];
    for x in [
        "25519", "448", "P256", "p256", "Kyber1024", "25519+Kyber1024", "ChaChaPoly", "XChaChaPoly", "AESGCM", "AES256GCM", "SHA256", "SHA512", "BLAKE2s", "BLAKE2b", "BLAKE2S", "SHA3", "",
        // near misses: other spellings of the same primitives (library identifiers, RFC names, case variants)
        "Curve25519", "Curve448", "curve25519", "X25519", "x25519", "Ed25519", "P-256", "P_256", "secp256r1", "prime256v1", "Blake2s", "Blake2b", "blake2s", "blake2b", "BLAKE2", "Blake2", "Sha256", "Sha512", "sha256",
        "SHA-256", "SHA2", "AesGcm", "Aesgcm", "AES-GCM", "AESGCM256", "aesgcm", "ChaChaPoly1305", "ChaCha20Poly1305", "CHACHAPOLY", "chachapoly", "XChaCha", "XChaCha20Poly1305", "Xchachapoly", "Kyber", "kyber1024",
    ] {
        d.push(format!("Noise_XX_{x}_AESGCM_SHA256"));
        d.push(format!("Noise_XX_25519_{x}_SHA256"));
        d.push(format!("Noise_XX_25519_AESGCM_{x}"));
        d.push(format!("Noise_XXhfs_{x}_AESGCM_SHA256"));
    }
    for m in ["psk", "psk+", "+psk0", "psk0+", "psk0++psk1", "psk256", "psk999", "psk-1", "psk01", "psk001", "psk+1", "psk1+psk01", "psk 1", "psk1 ", "PSK1", "fallback+fallback", "fallback+psk0+fallback", "psk0+psk1+psk0", "psk1+psk1", "hfs", "hfs+psk0", "psk0+hfs", "fallbac", "fallbackk"] {
        for p in ["XX", "N", "X1X1", "IK1"] {
            d.push(format!("Noise_{p}{m}_25519_ChaChaPoly_BLAKE2s"));
        }
    }
    for s in &d {
        tally(eval(s));
    }
    ctx.count("d_structure_variations", d.len() as u64);
    // (e) deterministic pseudo-random strings over the name alphabet plus separators and non-ASCII (a fixed
    // sequence, not sampling at run time): the "anything else" part of the quantifier
    let letters: Vec<char> = "NoisepkfalbcXKI1_+0259684SHABLEGCMPoly\u{e9}\u{2603} -".chars().collect();
    let rnd: Vec<String> = (0..200_000u64)
        .map(|i| {
            let mut x = i.wrapping_mul(0x9e37_79b9_7f4a_7c15) ^ 0x1234_5678;
            let len = 1 + (x % 48) as usize;
            let mut s = String::new();
            if i % 3 == 0 {
                s.push_str("Noise_");
            }
            for _ in 0..len {
                x = x.wrapping_mul(6364136223846793005).wrapping_add(1442695040888963407);
                s.push(letters[((x >> 33) as usize) % letters.len()]);
            }
            s
        })
        .collect();
    rnd.par_iter().for_each(|s| tally(eval(s)));
    ctx.count("e_pseudo_random_strings", rnd.len() as u64);
    let ev = ctx.evaluations.load(std::sync::atomic::Ordering::Relaxed);
    ctx.states.store(ev, std::sync::atomic::Ordering::Relaxed);
    ctx.transitions.store(ev, std::sync::atomic::Ordering::Relaxed);
    ctx.traces.store(ev, std::sync::atomic::Ordering::Relaxed);
    let (a, r) = (acc.load(std::sync::atomic::Ordering::Relaxed), rej.load(std::sync::atomic::Ordering::Relaxed));
    ctx.nontrivial.store(a.min(r) * 2, std::sync::atomic::Ordering::Relaxed);
    ctx.count("accepted_by_both", a);
    ctx.count("rejected_by_both", r);
    ctx.sample(json!({"accept": "Noise_XXpsk0+psk3_25519_ChaChaPoly_BLAKE2s", "reject": ["Noise_XXpsk1+psk1_25519_AESGCM_SHA256", "Noise_X1_25519_AESGCM_SHA256", "Noise_XX_25519_AESGCM_SHA256_"], "dont_care": "Noise_XXpsk01_25519_AESGCM_SHA256"}));
    ctx.assume("don't-care set: psk numbers spelled with leading zeros (the grammar is silent; snow accepts psk01 as psk1) are neither required nor forbidden");
    ctx.assume(format!("build features: p256, xchacha, hfs={}", cfg!(feature = "hfs")));
    ctx.assume("names whose modifiers do not fit the pattern (psk9 on XX) parse successfully by design; they are rejected at build time (C12)");
    *ctx.exhaustive.lock().unwrap() = Some(false);
    ctx.finish()
}

pub fn replay(case: &serde_json::Value) -> Result<(), String> {
    let s = case["name"].as_str().ok_or("bad case")?;
    match judge(s) {
        Ok(_) => Ok(()),
        Err((sig, d)) => Err(format!("{sig}: {d}")),
    }
}
