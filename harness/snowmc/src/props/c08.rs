//! C08 A channel exists only if both sides agree on name, prologue, PSKs, static keys (E1).

use crate::{
    ctx::{Ctx, Tier},
    exec::{key_bytes, Config, Exec, Op, Side, SIDES},
    sess::{self, Mode},
};
use rayon::prelude::*;
use refnoise::{patterns, CipherAlg, DhAlg, HashAlg, Proto};
use serde_json::json;

fn ops_for(p: &Proto, mode: Mode) -> Vec<Op> {
    sess::full_session_ops(p, &[2, 2, 2, 2], mode, &[Side::I, Side::R], &[3, 3])
}

/// the same session with every payload empty: every encrypted field is then a bare tag, and a backend that
/// treats "nothing to decrypt" as "nothing to verify" lets differing peers through
fn ops_empty(p: &Proto, mode: Mode) -> Vec<Op> {
    sess::full_session_ops(p, &[0, 0, 0, 0], mode, &[Side::I, Side::R], &[0, 0])
}

/// (signature, detail) if the two differently configured peers end up with a working channel.
/// Runs that contain deliberately failing local calls (the retry variants) are judged on the second clause
/// only - a transport message accepted - because "completes without an error" does not apply to them.
pub fn judge(cfg: &Config, ops: &[Op], what: &str) -> Option<(String, String)> {
    let e = Exec::run(cfg, ops);
    if e.build_err.is_some() {
        return None; // a side that cannot even be built has no channel
    }
    // a difference that was to be made through set_psk and was refused did not come into existence
    if e.steps.iter().any(|s| matches!(s.op, Op::SetPsk { .. } | Op::SetPskAlt { .. }) && !s.real.is_ok()) {
        return None;
    }
    let n = e.proto.n_msgs();
    let hs: Vec<_> = e.steps.iter().filter(|s| matches!(s.op, Op::HsWrite { .. } | Op::HsRead { .. } | Op::SetPsk { .. } | Op::SetPskAlt { .. })).collect();
    let written = hs.iter().filter(|s| matches!(s.op, Op::HsWrite { .. }) && s.real.is_ok()).count();
    let read = hs.iter().filter(|s| matches!(s.op, Op::HsRead { .. }) && s.real.is_ok()).count();
    if written != n || read != n {
        return None;
    }
    let clean = hs.iter().all(|s| s.real.is_ok());
    // both finished: the channel must at least be unusable
    let accepted = e.steps.iter().any(|s| matches!(s.op, Op::TRead { .. } | Op::SRead { .. }) && s.real.is_ok());
    if clean {
        return Some((
            if accepted { format!("peers that differ in {what} completed the handshake and exchanged transport messages") } else { format!("peers that differ in {what} both completed the handshake without an error") },
            cfg.name.to_string(),
        ));
    }
    accepted.then(|| (format!("peers that differ in {what} exchanged transport messages after local failing calls and retries"), cfg.name.to_string()))
}

/// The same session in which every handshake step is first attempted wrongly (a write into a buffer one byte
/// short, a read into an empty payload buffer - both fail after the message's tokens were processed) and
/// then repeated correctly.
fn with_retries(p: &Proto, ops: &[Op]) -> Vec<Op> {
    use crate::exec::{Cap, Msg};
    let mut out = vec![];
    for (k, op) in ops.iter().enumerate() {
        if k < 2 * p.n_msgs() {
            match op {
                Op::HsWrite { side, plen, .. } => out.push(Op::HsWrite { side: *side, plen: *plen, cap: Cap::NeedPlus(-1) }),
                Op::HsRead { side, .. } => out.push(Op::HsRead { side: *side, msg: Msg::Last(side.peer()), cap: Cap::Exact(0) }),
                _ => {},
            }
        }
        out.push(op.clone());
    }
    out
}

#[derive(Clone)]
struct Item {
    cfg: Config,
    what: &'static str,
}

/// A different encoding / a different valid key that yields the same DH output.
fn related_key(dh: DhAlg, k: &[u8]) -> Vec<u8> {
    let mut o = k.to_vec();
    match dh {
        DhAlg::X25519 => o[31] ^= 0x80,
        DhAlg::P256 => {
            // p = 2^256 - 2^224 + 2^192 + 2^96 - 1
            let p: [u8; 32] = [0xff, 0xff, 0xff, 0xff, 0, 0, 0, 1, 0, 0, 0, 0, 0, 0, 0, 0, 0, 0, 0, 0, 0xff, 0xff, 0xff, 0xff, 0xff, 0xff, 0xff, 0xff, 0xff, 0xff, 0xff, 0xff];
            let mut borrow = 0i16;
            for i in (0..32).rev() {
                let d = i16::from(p[i]) - i16::from(k[33 + i]) - borrow;
                if d < 0 {
                    o[33 + i] = (d + 256) as u8;
                    borrow = 1;
                } else {
                    o[33 + i] = d as u8;
                    borrow = 0;
                }
            }
        },
    }
    o
}

fn flip(v: &[u8], bit: usize) -> Vec<u8> {
    let mut o = v.to_vec();
    o[bit / 8] ^= 1 << (bit % 8);
    o
}

fn prologues() -> Vec<Vec<u8>> {
    vec![vec![], vec![0], vec![5; 32], vec![6; 64], vec![7; 65], vec![8; 129]]
}

fn items_for(p: &Proto, deep: bool) -> Vec<Item> {
    let base = {
        let mut c = Config::honest(p, 0);
        c.crypto_oracle = false;
        c
    };
    let mut v = vec![];
    // (i) the name string only
    let n = &p.name;
    let mut alt_names: Vec<String> = vec![];
    let mut chars: Vec<char> = n.chars().collect();
    let last = chars.len() - 1;
    chars[last] = if chars[last] == '6' { '7' } else { '6' };
    alt_names.push(chars.iter().collect());
    alt_names.push(format!("{n}x"));
    alt_names.push(n[..n.len() - 1].to_string());
    alt_names.push(n.replacen("Noise", "noise", 1));
    if p.psks.len() >= 2 {
        let mut ps = p.psks.clone();
        ps.reverse();
        let mods: Vec<String> = ps.iter().map(|k| format!("psk{k}")).collect();
        alt_names.push(format!("Noise_{}{}_{}_{}_{}", p.base, mods.join("+"), p.dh.name(), p.cipher.name(), p.hash.name()));
    }
    // these items change the public `name` field of the parsed parameters (what NoiseParams::new lets any caller
    // do). A snow that hashed a re-rendering of the parsed components instead of this string would not be
    // equivalent: names the parser accepts in several spellings (psk01 for psk1) would collapse - see (i'')
    {
        for an in alt_names {
            for side in 0..2 {
                let mut c = base.clone();
                c.hashed_name[side] = Some(an.clone());
                v.push(Item { cfg: c, what: "the protocol name string" });
            }
        }
    }
    // (i'') a psk number spelled with a leading zero, where the parser accepts that spelling: another string, so
    // another protocol name (a parser that refuses it leaves nothing to judge)
    for (k, q) in p.psks.iter().enumerate() {
        let alt = p.name.replacen(&format!("psk{q}"), &format!("psk0{q}"), 1);
        if alt != p.name {
            let mut c = base.clone();
            c.parse_name[k % 2] = Some(alt);
            v.push(Item { cfg: c, what: "the spelling of a psk modifier in the name" });
        }
    }
    // (i') the same modifiers spelled in another order are a valid, different name: one side obtains its
    // parameters by parsing that other spelling (same tokens, same keys - only the hashed string differs)
    if p.psks.len() >= 2 {
        let spell = |ps: &[u8]| {
            let mods: Vec<String> = ps.iter().map(|k| format!("psk{k}")).collect();
            format!("Noise_{}{}_{}_{}_{}", p.base, mods.join("+"), p.dh.name(), p.cipher.name(), p.hash.name())
        };
        let mut orders: Vec<Vec<u8>> = vec![p.psks.iter().rev().copied().collect()];
        let mut rot = p.psks.clone();
        rot.rotate_left(1);
        orders.push(rot);
        let mut sw = p.psks.clone();
        let l = sw.len();
        sw.swap(l - 2, l - 1);
        orders.push(sw);
        orders.sort();
        orders.dedup();
        for (k, o) in orders.iter().enumerate() {
            if *o == p.psks {
                continue;
            }
            let mut c = base.clone();
            c.parse_name[k % 2] = Some(spell(o));
            v.push(Item { cfg: c, what: "the order in which the name spells its psk modifiers" });
            // both sides parse a reordered spelling, but not the same one
            if orders.len() >= 2 {
                let o2 = &orders[(k + 1) % orders.len()];
                if o2 != o && *o2 != p.psks {
                    let mut c = base.clone();
                    c.parse_name = [Some(spell(o)), Some(spell(o2))];
                    v.push(Item { cfg: c, what: "the order in which the name spells its psk modifiers" });
                }
            }
        }
    }
    // (ii) a name component of equal length / same message shape
    let swap_hash = match p.hash {
        HashAlg::Sha256 => Some(HashAlg::Blake2s),
        HashAlg::Blake2s => Some(HashAlg::Sha256),
        HashAlg::Sha512 => Some(HashAlg::Blake2b),
        HashAlg::Blake2b => Some(HashAlg::Sha512),
    };
    if let Some(h) = swap_hash {
        let mut c = base.clone();
        c.parse_name[1] = Some(n.replace(p.hash.name(), h.name()));
        v.push(Item { cfg: c, what: "the hash function" });
    }
    let other_cipher = if p.cipher == CipherAlg::AesGcm { CipherAlg::ChaChaPoly } else { CipherAlg::AesGcm };
    {
        let mut c = base.clone();
        c.parse_name[0] = Some(n.replace(&format!("_{}_", p.cipher.name()), &format!("_{}_", other_cipher.name())));
        v.push(Item { cfg: c, what: "the cipher" });
    }
    // (iii) prologue
    for pl in prologues() {
        let mut variants: Vec<Vec<u8>> = vec![];
        let bits: Vec<usize> = if deep { (0..pl.len() * 8).collect() } else { (0..pl.len()).map(|i| i * 8 + i % 8).step_by(5).collect() };
        for b in bits {
            variants.push(flip(&pl, b));
        }
        let mut ext = pl.clone();
        ext.push(0);
        variants.push(ext);
        if !pl.is_empty() {
            variants.push(pl[..pl.len() - 1].to_vec());
        }
        for (k, va) in variants.into_iter().enumerate() {
            let mut c = base.clone();
            c.prologue = [pl.clone(), pl.clone()];
            c.prologue[k % 2] = va;
            v.push(Item { cfg: c, what: "the prologue" });
        }
    }
    // (iv) each psk
    for slot in &p.psks {
        let s = usize::from(*slot);
        let good = base.psks[0][s].unwrap();
        let bits: Vec<usize> = if deep { (0..256).collect() } else { (0..32).map(|i| i * 8 + i % 8).step_by(3).collect() };
        for (k, b) in bits.into_iter().enumerate() {
            let mut c = base.clone();
            c.psks[k % 2][s] = Some(flip(&good, b).try_into().unwrap());
            v.push(Item { cfg: c, what: "a pre-shared symmetric key" });
        }
    }
    // (v) pre-shared static keys: a different but valid key on either side
    let other = p.dh.pubkey(&key_bytes(11)).unwrap();
    for s in SIDES {
        if let Some(good) = &base.rs_pub[s.idx()] {
            let mut c = base.clone();
            c.rs_pub[s.idx()] = Some(other.clone());
            v.push(Item { cfg: c, what: "a pre-shared static public key" });
            // related keys: for P-256 the negated point (x, p - y) is a different valid public key with
            // the same x-coordinate (and therefore the same ECDH output); for 25519 the same point
            // with the ignored top bit set
            let mut c = base.clone();
            c.rs_pub[s.idx()] = Some(related_key(p.dh, good));
            v.push(Item { cfg: c, what: "a pre-shared static public key" });
        }
    }
    // a party whose own static key is not the one its peer pre-shares
    for s in SIDES {
        if base.rs_pub[s.peer().idx()].is_some() && base.s_priv[s.idx()].is_some() {
            let mut c = base.clone();
            c.s_priv[s.idx()] = Some(key_bytes(12));
            v.push(Item { cfg: c, what: "a pre-shared static public key" });
        }
    }
    v
}


/// The prologue each party ASKED for is what must agree. A builder whose prologue is set twice either refuses the
/// second call (snow does: ParameterOverwrite) or uses the second value - it must not quietly keep the first. Two
/// parties that set a common default first and different prologues afterwards must therefore not get a channel.
fn prologue_set_twice(ctx: &Ctx) {
    use snow::Builder;
    let firsts: [&[u8]; 3] = [b"", b"common", &[7u8; 64]];
    for name in ["Noise_NN_25519_ChaChaPoly_SHA256", "Noise_XX_25519_AESGCM_BLAKE2b", "Noise_NNpsk0_25519_ChaChaPoly_SHA512"] {
        for first in firsts {
            for (si, sr) in [(b"-alice".as_slice(), b"-bob".as_slice()), (b"".as_slice(), b"x".as_slice()), (b"x".as_slice(), b"".as_slice())] {
                ctx.add(&ctx.evaluations, 1);
                let mk = |init: bool| -> Result<snow::HandshakeState, snow::Error> {
                    let second: Vec<u8> = [first, if init { si } else { sr }].concat();
                    let sk = key_bytes(if init { 1 } else { 2 });
                    let mut b = Builder::new(name.parse()?).prologue(first)?;
                    b = b.prologue(&second)?;
                    if name.contains("XX") {
                        b = b.local_private_key(&sk)?;
                    }
                    if name.contains("psk0") {
                        b = b.psk(0, &[3u8; 32])?;
                    }
                    if init {
                        b.build_initiator()
                    } else {
                        b.build_responder()
                    }
                };
                let r = std::panic::catch_unwind(std::panic::AssertUnwindSafe(|| -> Option<()> {
                    let (mut i, mut r) = (mk(true).ok()?, mk(false).ok()?);
                    let (mut m, mut o) = (vec![0u8; 1024], vec![0u8; 1024]);
                    let n = if name.contains("XX") { 3 } else { 2 };
                    for k in 0..n {
                        if k % 2 == 0 {
                            let l = i.write_message(b"", &mut m).ok()?;
                            r.read_message(&m[..l], &mut o).ok()?;
                        } else {
                            let l = r.write_message(b"", &mut m).ok()?;
                            i.read_message(&m[..l], &mut o).ok()?;
                        }
                    }
                    let (mut ti, mut tr) = (i.into_transport_mode().ok()?, r.into_transport_mode().ok()?);
                    let l = ti.write_message(b"hello", &mut m).ok()?;
                    tr.read_message(&m[..l], &mut o).ok()?;
                    Some(())
                }));
                ctx.count("prologue set twice", 1);
                if let Ok(Some(())) = r {
                    ctx.violation("peers that differ in the prologue (each set a common value first and its own afterwards) completed the handshake and exchanged transport messages", format!("{name}: first {:?}, then +{:?} / +{:?}", String::from_utf8_lossy(first), String::from_utf8_lossy(si), String::from_utf8_lossy(sr)), json!({"kind": "prologue-twice"}));
                } else {
                    ctx.add(&ctx.nontrivial, 1);
                }
            }
        }
    }
}

pub fn run(tier: Tier) -> i32 {
    let ctx = Ctx::new("C08", tier, "model_checking");
    let quick = ctx.quick();
    ctx.set_rule("case = (protocol name, one context item made different between the peers: the hashed name string only (one character, appended/removed character, case, psk modifier order), the hash or cipher component, one prologue bit / length (6 prologues incl. empty and longer than a hash block), one bit of one psk, a different valid pre-shared static key on either side, a static key that is not the pre-shared one); sessions with 2-3 byte payloads and with all payloads empty; a psk replaced through set_psk after building (one side / both sides differently); the same differences in sessions where every handshake step is first attempted wrongly and then repeated; pairs of items in thorough. Oracle: never both complete without an error, and no transport message accepted; control: the equal configuration completes. non-trivial = both sides could be built and the run executed");
    let mut protos: Vec<(Proto, bool)> = vec![];
    for (k, p) in patterns::all_protos().into_iter().enumerate() {
        // all 13 344 names get the reduced alphabets in thorough; quick: the 25519/ChaChaPoly/SHA256 suite + every 12th name
        let in_quick = (p.dh == DhAlg::X25519 && p.cipher == CipherAlg::ChaChaPoly && p.hash == HashAlg::Sha256) || k % 12 == 0;
        if !quick || in_quick {
            protos.push((p, false));
        }
    }
    // deep alphabets (every prologue bit, every psk bit) on the base patterns + one psk variant, two suites
    for (d, c, h) in [(DhAlg::X25519, CipherAlg::AesGcm, HashAlg::Sha512), (DhAlg::P256, CipherAlg::XChaChaPoly, HashAlg::Blake2s)] {
        for (k, b) in patterns::base_patterns().iter().enumerate() {
            if quick && k % 3 != 0 {
                continue;
            }
            protos.push((Proto::new(b, &[], d, c, h).unwrap(), true));
            protos.push((Proto::new(b, &[(k % (b.msgs.len() + 1)) as u8], d, c, h).unwrap(), true));
        }
    }
    prologue_set_twice(&ctx);
    ctx.count("names", protos.len() as u64);
    protos.par_iter().for_each(|(p, deep)| {
        let ops = ops_for(p, if p.n_msgs() % 2 == 0 { Mode::TS } else { Mode::ST });
        // control
        let mut ctrl = Config::honest(p, 0);
        ctrl.crypto_oracle = false;
        let ce = Exec::run(&ctrl, &ops);
        ctx.add(&ctx.evaluations, 1);
        if !ce.steps.iter().all(|s| s.real.is_ok()) {
            ctx.count("control_failed (vacuity guard; C02 decides)", 1);
            return;
        }
        let items = items_for(p, *deep);
        let eops = ops_empty(p, if p.n_msgs() % 2 == 0 { Mode::TS } else { Mode::ST });
        for (k, it) in items.iter().enumerate() {
            ctx.add(&ctx.evaluations, 1);
            ctx.add(&ctx.transitions, ops.len() as u64);
            ctx.add(&ctx.traces, 1);
            ctx.add(&ctx.nontrivial, 1);
            ctx.count(it.what, 1);
            if let Some((sig, d)) = judge(&it.cfg, &ops, it.what) {
                ctx.violation(sig, d, json!({"kind": "c08", "config": it.cfg, "ops": ops, "what": it.what}));
            }
            // all-empty payloads: every item on the deep set, every third elsewhere
            if *deep || k % 3 == 0 {
                ctx.add(&ctx.evaluations, 1);
                ctx.add(&ctx.transitions, eops.len() as u64);
                ctx.add(&ctx.traces, 1);
                ctx.count("all-empty payloads", 1);
                if let Some((sig, d)) = judge(&it.cfg, &eops, it.what) {
                    ctx.violation(format!("{sig} (all payloads empty)"), d, json!({"kind": "c08", "config": it.cfg, "ops": eops, "what": it.what}));
                }
            }
        }
        // (vi) a psk replaced after building, through HandshakeState::set_psk, on one side or (differently) on both
        for slot in &p.psks {
            let loc = usize::from(*slot);
            for (k, who) in [vec![(Side::I, 9u16)], vec![(Side::R, 130)], vec![(Side::I, 77), (Side::R, 201)]].into_iter().enumerate() {
                let mut o: Vec<Op> = who.iter().map(|(s, bit)| Op::SetPskAlt { side: *s, loc, bit: *bit }).collect();
                o.extend(ops.iter().cloned());
                let _ = k;
                ctx.add(&ctx.evaluations, 1);
                ctx.add(&ctx.transitions, o.len() as u64);
                ctx.add(&ctx.traces, 1);
                ctx.add(&ctx.nontrivial, 1);
                ctx.count("a pre-shared symmetric key replaced through set_psk", 1);
                if let Some((sig, d)) = judge(&ctrl, &o, "a pre-shared symmetric key (replaced through set_psk after building)") {
                    ctx.violation(sig, d, json!({"kind": "c08", "config": ctrl, "ops": o, "what": "a pre-shared symmetric key (replaced through set_psk after building)"}));
                }
            }
        }
        // (vii) the same differences in sessions whose every handshake step is first attempted wrongly and then
        // repeated: every psk item, and the first item of every other class
        let rops = with_retries(p, &ops);
        let mut seen_class: Vec<&str> = vec![];
        for it in &items {
            if it.what != "a pre-shared symmetric key" {
                if seen_class.contains(&it.what) {
                    continue;
                }
                seen_class.push(it.what);
            }
            ctx.add(&ctx.evaluations, 1);
            ctx.add(&ctx.transitions, rops.len() as u64);
            ctx.add(&ctx.traces, 1);
            ctx.count("retry variants", 1);
            if let Some((sig, d)) = judge(&it.cfg, &rops, it.what) {
                ctx.violation(sig, d, json!({"kind": "c08", "config": it.cfg, "ops": rops, "what": it.what}));
            }
        }
        if !quick && *deep {
            // pairs of items: one from each class
            let mut reps: Vec<&Item> = vec![];
            for it in &items {
                if reps.iter().filter(|r| r.what == it.what).count() < 2 {
                    reps.push(it);
                }
            }
            for a in 0..reps.len() {
                for b in (a + 1)..reps.len() {
                    let (x, y) = (reps[a], reps[b]);
                    let mut c = x.cfg.clone();
                    // overlay y's differences onto x
                    let base = &ctrl;
                    if y.cfg.prologue != base.prologue {
                        c.prologue = y.cfg.prologue.clone();
                    }
                    if y.cfg.psks != base.psks {
                        c.psks = y.cfg.psks.clone();
                    }
                    if y.cfg.rs_pub != base.rs_pub {
                        c.rs_pub = y.cfg.rs_pub.clone();
                    }
                    if y.cfg.hashed_name != base.hashed_name {
                        c.hashed_name = y.cfg.hashed_name.clone();
                    }
                    ctx.add(&ctx.evaluations, 1);
                    ctx.count("pairs", 1);
                    if let Some((sig, d)) = judge(&c, &ops, "two context items") {
                        ctx.violation(sig, d, json!({"kind": "c08", "config": c, "ops": ops, "what": "two context items"}));
                    }
                }
            }
        }
    });
    ctx.states.store(ctx.evaluations.load(std::sync::atomic::Ordering::Relaxed), std::sync::atomic::Ordering::Relaxed);
    let (p0, _) = &protos[3];
    let it0 = items_for(p0, false);
    ctx.sample(json!({"name": p0.name, "what": it0[0].what, "hashed_name": it0[0].cfg.hashed_name}));
    ctx.sample(json!({"name": p0.name, "what": it0[it0.len() - 1].what}));
    ctx.assume("a name differing only by trailing NUL bytes from a name shorter than HASHLEN is indistinguishable by the specification's zero padding and is not in the alphabet (such a string is not a parseable name)");
    ctx.assume("prologue / psk byte values from fixed patterns; every single-bit difference on the deep set, one bit per byte elsewhere");
    *ctx.exhaustive.lock().unwrap() = Some(false);
    ctx.finish()
}

pub fn replay(case: &serde_json::Value) -> Result<(), String> {
    if case["kind"] == "prologue-twice" {
        let ctx = Ctx::new("C08", Tier::Quick, "model_checking");
        prologue_set_twice(&ctx);
        return match ctx.violations.lock().unwrap().first() {
            Some(v) => Err(format!("{}: {}", v.signature, v.detail)),
            None => Ok(()),
        };
    }
    let (cfg, ops) = sess::case_from_json(case).ok_or("bad case")?;
    let what = case["what"].as_str().unwrap_or("a context item").to_string();
    match judge(&cfg, &ops, &what) {
        Some((s, d)) => Err(format!("{s}: {d}")),
        None => Ok(()),
    }
}
