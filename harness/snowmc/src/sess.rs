//! Helpers to build operation sequences for honest sessions and to judge executor runs.

use crate::exec::{Cap, Cat, Config, Exec, Mismatch, Msg, Op, Side};
use refnoise::Proto;

#[derive(Clone, Copy, PartialEq, Eq, Hash, Debug, serde::Serialize, serde::Deserialize)]
pub enum Mode {
    /// both stateful
    TT,
    /// both stateless
    SS,
    /// initiator stateful, responder stateless
    TS,
    /// initiator stateless, responder stateful
    ST,
}

pub fn writer(k: usize) -> Side {
    if k % 2 == 0 {
        Side::I
    } else {
        Side::R
    }
}

/// The honest handshake: message k written by its sender with payload length plens[k] and read by the peer.
pub fn handshake_ops(proto: &Proto, plens: &[usize]) -> Vec<Op> {
    let mut ops = vec![];
    for k in 0..proto.n_msgs() {
        let w = writer(k);
        ops.push(Op::HsWrite { side: w, plen: plens.get(k).copied().unwrap_or(0), cap: Cap::Roomy });
        ops.push(Op::HsRead { side: w.peer(), msg: Msg::Last(w), cap: Cap::Roomy });
    }
    ops
}

pub fn convert_ops(mode: Mode) -> Vec<Op> {
    let (i_stateless, r_stateless) = match mode {
        Mode::TT => (false, false),
        Mode::SS => (true, true),
        Mode::TS => (false, true),
        Mode::ST => (true, false),
    };
    vec![
        if i_stateless { Op::ToStateless { side: Side::I } } else { Op::ToTransport { side: Side::I } },
        if r_stateless { Op::ToStateless { side: Side::R } } else { Op::ToTransport { side: Side::R } },
    ]
}

/// Transport traffic: `dirs[j]` is the sender of the j-th message; nonces count per direction.
pub fn transport_ops(mode: Mode, oneway: bool, dirs: &[Side], plens: &[usize]) -> Vec<Op> {
    let stateless = |s: Side| matches!((mode, s), (Mode::SS, _) | (Mode::TS, Side::R) | (Mode::ST, Side::I));
    let mut n = [0u64; 2];
    let mut ops = vec![];
    for (j, &w) in dirs.iter().enumerate() {
        if oneway && w == Side::R {
            continue;
        }
        let plen = plens.get(j).copied().unwrap_or(0);
        let nonce = n[w.idx()];
        n[w.idx()] += 1;
        ops.push(if stateless(w) { Op::SWrite { side: w, nonce, plen, cap: Cap::Roomy } } else { Op::TWrite { side: w, plen, cap: Cap::Roomy } });
        let r = w.peer();
        ops.push(if stateless(r) {
            Op::SRead { side: r, nonce, msg: Msg::Last(w), cap: Cap::Roomy }
        } else {
            Op::TRead { side: r, msg: Msg::Last(w), cap: Cap::Roomy }
        });
    }
    ops
}

pub fn full_session_ops(proto: &Proto, hs_plens: &[usize], mode: Mode, dirs: &[Side], t_plens: &[usize]) -> Vec<Op> {
    let mut ops = handshake_ops(proto, hs_plens);
    // the raw split keys (risky-raw-split API) of both sides, just before conversion
    ops.push(Op::RawSplit { side: Side::I });
    ops.push(Op::RawSplit { side: Side::R });
    ops.extend(convert_ops(mode));
    ops.extend(transport_ops(mode, proto.pattern.is_oneway(), dirs, t_plens));
    ops
}

pub fn run(cfg: &Config, ops: &[Op]) -> Exec {
    Exec::run(cfg, ops)
}

/// mismatches of the given categories
pub fn filter<'a>(e: &'a Exec, cats: &[Cat]) -> Vec<&'a Mismatch> {
    e.mism.iter().filter(|m| cats.contains(&m.cat)).collect()
}

/// Signature of a mismatch: category + op kind + side (no pattern name, no bytes).
pub fn signature(e: &Exec, m: &Mismatch) -> String {
    let opk = e.steps.get(m.step).map(|s| op_kind(&s.op)).unwrap_or_else(|| op_kind_at_end(e, m));
    format!("{:?} at {}", m.cat, opk)
}

fn op_kind_at_end(_e: &Exec, _m: &Mismatch) -> String {
    "call".into()
}

pub fn op_kind(op: &Op) -> String {
    let s = format!("{op:?}");
    let name = s.split([' ', '{']).next().unwrap_or("").to_string();
    format!("{name}({:?})", op.side())
}

pub fn case_json(cfg: &Config, ops: &[Op]) -> serde_json::Value {
    serde_json::json!({"kind": "exec", "config": cfg, "ops": ops})
}

pub fn case_from_json(v: &serde_json::Value) -> Option<(Config, Vec<Op>)> {
    let cfg: Config = serde_json::from_value(v.get("config")?.clone()).ok()?;
    let ops: Vec<Op> = serde_json::from_value(v.get("ops")?.clone()).ok()?;
    Some((cfg, ops))
}

pub fn describe_steps(e: &Exec) -> Vec<String> {
    e.steps.iter().enumerate().map(|(k, s)| format!("{k}: {:?} -> {} (expected {})", s.op, s.real.short(), short_expect(&s.expect))).collect()
}

pub fn short_expect(x: &crate::exec::Expect) -> String {
    use crate::exec::Expect as E;
    match x {
        E::Ok(_) => "Ok".into(),
        E::Err(c) => format!("Err{c:?}"),
        E::Either(_, c) => format!("Ok|Err{c:?}"),
        E::Unit => "()".into(),
    }
}
