//! Resolver seams: every source of nondeterminism and every AEAD call of a session goes through
//! here. `Builder::with_resolver` is the only seam snow offers and it is enough.

use snow::{
    params::{CipherChoice, DHChoice, HashChoice},
    resolvers::{BoxedCryptoResolver, CryptoResolver, DefaultResolver, FallbackResolver, RingResolver},
    types::{Cipher, Dh, Hash, Random},
};
use std::sync::{Arc, Mutex};

#[derive(Clone, Copy, PartialEq, Eq, Hash, Debug, serde::Serialize, serde::Deserialize, PartialOrd, Ord)]
pub enum Backend {
    /// `DefaultResolver`
    Default,
    /// `FallbackResolver(RingResolver, DefaultResolver)` - ring wherever it has the primitive
    Ring,
    /// `FallbackResolver(DefaultResolver, RingResolver)`
    DefaultRing,
}

pub const ALL_BACKENDS: [Backend; 3] = [Backend::Default, Backend::Ring, Backend::DefaultRing];

pub fn backend_resolver(b: Backend) -> BoxedCryptoResolver {
    match b {
        Backend::Default => Box::new(DefaultResolver),
        Backend::Ring => Box::new(FallbackResolver::new(Box::new(RingResolver), Box::new(DefaultResolver))),
        Backend::DefaultRing => Box::new(FallbackResolver::new(Box::new(DefaultResolver), Box::new(RingResolver))),
    }
}

// ---------------------------------------------------------------------------------------------

#[derive(Clone, PartialEq, Eq, Debug)]
pub enum CipherOp {
    Set,
    Encrypt,
    Decrypt,
    Rekey,
}

#[derive(Clone, Debug)]
pub struct CipherEvent {
    /// which cipher object of the endpoint: 0 = handshake cipher, 1 = initiator->responder, 2 = responder->initiator
    pub obj: usize,
    pub op: CipherOp,
    /// key installed in the object when the call was made (for Set: the new key)
    pub key: Option<[u8; 32]>,
    pub nonce: u64,
    pub ad: Vec<u8>,
    /// Encrypt: plaintext; Decrypt: ciphertext
    pub data: Vec<u8>,
    pub out_cap: usize,
    pub ok: bool,
    /// Rekey only: the key that was installed before (the key the REKEY encryption ran under)
    pub prev_key: Option<[u8; 32]>,
}

#[derive(Default, Debug)]
pub struct LogInner {
    pub cipher: Vec<CipherEvent>,
    /// every `fill_bytes` call: the bytes handed out
    pub rng: Vec<Vec<u8>>,
    next_cipher: usize,
    next_rng: u64,
}

/// Per-endpoint log shared between the harness and the seam objects living inside snow.
#[derive(Clone, Default)]
pub struct Log(pub Arc<Mutex<LogInner>>);

impl Log {
    pub fn new() -> Self {
        Log::default()
    }
    pub fn cipher_len(&self) -> usize {
        self.0.lock().unwrap().cipher.len()
    }
    pub fn rng_len(&self) -> usize {
        self.0.lock().unwrap().rng.len()
    }
    pub fn cipher_since(&self, from: usize) -> Vec<CipherEvent> {
        self.0.lock().unwrap().cipher[from..].to_vec()
    }
    pub fn rng_since(&self, from: usize) -> Vec<Vec<u8>> {
        self.0.lock().unwrap().rng[from..].to_vec()
    }
    /// current key of cipher object `obj` according to the log
    pub fn current_key(&self, obj: usize) -> Option<[u8; 32]> {
        let g = self.0.lock().unwrap();
        g.cipher.iter().rev().find(|e| e.obj == obj && (e.op == CipherOp::Set || e.op == CipherOp::Rekey)).and_then(|e| e.key)
    }
}

/// Deterministic byte stream chosen by the explorer: stream `seed`, successive draws continue it.
pub struct ScriptedRng {
    seed: u64,
    ctr: u64,
    log: Log,
}

fn splitmix(mut x: u64) -> u64 {
    x = x.wrapping_add(0x9e37_79b9_7f4a_7c15);
    x = (x ^ (x >> 30)).wrapping_mul(0xbf58_476d_1ce4_e5b9);
    x = (x ^ (x >> 27)).wrapping_mul(0x94d0_49bb_1331_11eb);
    x ^ (x >> 31)
}

/// The bytes stream `seed` hands out at byte offset `off..off+len`.
pub fn scripted_bytes(seed: u64, off: u64, len: usize) -> Vec<u8> {
    (0..len as u64)
        .map(|i| {
            let p = off + i;
            (splitmix(seed.wrapping_mul(0x1_0000_0001).wrapping_add(p / 8)) >> (8 * (p % 8))) as u8
        })
        .collect()
}

impl rand_core::RngCore for ScriptedRng {
    fn next_u32(&mut self) -> u32 {
        rand_core::impls::next_u32_via_fill(self)
    }
    fn next_u64(&mut self) -> u64 {
        rand_core::impls::next_u64_via_fill(self)
    }
    fn fill_bytes(&mut self, dest: &mut [u8]) {
        let b = scripted_bytes(self.seed, self.ctr, dest.len());
        self.ctr += dest.len() as u64;
        dest.copy_from_slice(&b);
        self.log.0.lock().unwrap().rng.push(b);
    }
    fn try_fill_bytes(&mut self, dest: &mut [u8]) -> Result<(), rand_core::Error> {
        self.fill_bytes(dest);
        Ok(())
    }
}
impl rand_core::CryptoRng for ScriptedRng {}
impl Random for ScriptedRng {}

/// Wraps the real `Cipher` of the backend under test and records every call.
pub struct RecordingCipher {
    inner: Box<dyn Cipher>,
    obj: usize,
    key: Option<[u8; 32]>,
    log: Log,
}

impl Cipher for RecordingCipher {
    fn name(&self) -> &'static str {
        self.inner.name()
    }
    fn set(&mut self, key: &[u8; 32]) {
        self.key = Some(*key);
        self.log.0.lock().unwrap().cipher.push(CipherEvent {
            obj: self.obj,
            op: CipherOp::Set,
            key: self.key,
            nonce: 0,
            ad: vec![],
            data: vec![],
            out_cap: 0,
            ok: true,
            prev_key: None,
        });
        self.inner.set(key);
    }
    fn encrypt(&self, nonce: u64, authtext: &[u8], plaintext: &[u8], out: &mut [u8]) -> usize {
        self.log.0.lock().unwrap().cipher.push(CipherEvent {
            obj: self.obj,
            op: CipherOp::Encrypt,
            key: self.key,
            nonce,
            ad: authtext.to_vec(),
            data: plaintext.to_vec(),
            out_cap: out.len(),
            ok: true,
            prev_key: None,
        });
        self.inner.encrypt(nonce, authtext, plaintext, out)
    }
    fn decrypt(&self, nonce: u64, authtext: &[u8], ciphertext: &[u8], out: &mut [u8]) -> Result<usize, snow::Error> {
        let r = self.inner.decrypt(nonce, authtext, ciphertext, out);
        self.log.0.lock().unwrap().cipher.push(CipherEvent {
            obj: self.obj,
            op: CipherOp::Decrypt,
            key: self.key,
            nonce,
            ad: authtext.to_vec(),
            data: ciphertext.to_vec(),
            out_cap: out.len(),
            ok: r.is_ok(),
            prev_key: None,
        });
        r
    }
    fn rekey(&mut self) {
        // What the trait's default does, observed from outside: the new key is the first 32 bytes
        // of ENCRYPT(k, 2^64-1, "", zeros). Computed on the inner object before it rekeys itself.
        let mut ct = [0u8; 48];
        let n = self.inner.encrypt(u64::MAX, &[], &[0u8; 32], &mut ct);
        let newkey: Option<[u8; 32]> = if n == 48 { Some(ct[..32].try_into().unwrap()) } else { None };
        self.log.0.lock().unwrap().cipher.push(CipherEvent {
            obj: self.obj,
            op: CipherOp::Rekey,
            key: newkey,
            nonce: u64::MAX,
            ad: vec![],
            data: vec![0u8; 32],
            out_cap: 48,
            ok: true,
            prev_key: self.key,
        });
        self.inner.rekey();
        self.key = newkey;
    }
}

#[derive(Clone, Copy, PartialEq, Eq, Hash, Debug, serde::Serialize, serde::Deserialize)]
pub enum RngMode {
    /// the backend's own RNG (OS randomness) - only for labelled sample runs
    Os,
    /// ScriptedRng stream
    Scripted(u64),
}

/// The resolver handed to `Builder::with_resolver`.
pub struct SeamResolver {
    inner: BoxedCryptoResolver,
    rng: RngMode,
    record: bool,
    pub log: Log,
}

impl SeamResolver {
    pub fn new(b: Backend, rng: RngMode, record: bool, log: Log) -> Self {
        SeamResolver { inner: backend_resolver(b), rng, record, log }
    }
    pub fn boxed(b: Backend, rng: RngMode, record: bool, log: Log) -> BoxedCryptoResolver {
        Box::new(Self::new(b, rng, record, log))
    }
}

impl CryptoResolver for SeamResolver {
    fn resolve_rng(&self) -> Option<Box<dyn Random>> {
        match self.rng {
            RngMode::Os => self.inner.resolve_rng(),
            RngMode::Scripted(seed) => {
                // every RNG object of this endpoint continues the same stream family
                let k = {
                    let mut g = self.log.0.lock().unwrap();
                    let k = g.next_rng;
                    g.next_rng += 1;
                    k
                };
                Some(Box::new(ScriptedRng { seed: seed.wrapping_add(k << 20), ctr: 0, log: self.log.clone() }))
            },
        }
    }
    fn resolve_dh(&self, choice: &DHChoice) -> Option<Box<dyn Dh>> {
        self.inner.resolve_dh(choice)
    }
    fn resolve_hash(&self, choice: &HashChoice) -> Option<Box<dyn Hash>> {
        self.inner.resolve_hash(choice)
    }
    #[cfg(feature = "hfs")]
    fn resolve_kem(&self, choice: &snow::params::KemChoice) -> Option<Box<dyn snow::types::Kem>> {
        self.inner.resolve_kem(choice)
    }
    fn resolve_cipher(&self, choice: &CipherChoice) -> Option<Box<dyn Cipher>> {
        let c = self.inner.resolve_cipher(choice)?;
        if !self.record {
            return Some(c);
        }
        let obj = {
            let mut g = self.log.0.lock().unwrap();
            let o = g.next_cipher;
            g.next_cipher += 1;
            o
        };
        Some(Box::new(RecordingCipher { inner: c, obj, key: None, log: self.log.clone() }))
    }
}
