#[test]
fn kats() {
    let n = refnoise::kat::run().unwrap();
    assert!(n > 30, "{n}");
}
#[test]
fn table() {
    let b = refnoise::patterns::base_patterns();
    assert_eq!(b.len(), 38);
    assert_eq!(refnoise::patterns::all_protos_for_suite(refnoise::DhAlg::X25519, refnoise::CipherAlg::ChaChaPoly, refnoise::HashAlg::Sha256).len(), 556);
}
#[test]
fn cacophony() {
    let t = std::fs::read_to_string("/verif/data/cacophony.json").unwrap();
    let r = refnoise::vectors::validate(&t).unwrap();
    assert_eq!(r.validated, 472, "{r:?}");
}
