//! CipherState / SymmetricState / HandshakeState transcribed from Noise rev 34 section 5,
//! over plain `Vec<u8>` values so that states can be cloned, compared and hashed freely.

use crate::{
    patterns::{Proto, Tok},
    prims::{CipherAlg, HashAlg},
};

#[derive(Clone, PartialEq, Eq, Hash, Debug)]
pub struct CipherState {
    pub alg: CipherAlg,
    pub k: Option<[u8; 32]>,
    pub n: u64,
}

#[derive(Clone, Copy, PartialEq, Eq, Hash, Debug)]
pub enum RefErr {
    /// nonce 2^64-1 reached
    Exhausted,
    /// authentication failed
    Decrypt,
    /// message too short for its fixed fields
    Short,
    /// a psk token with no psk supplied
    MissingPsk,
    /// DH failed (invalid P-256 point)
    Dh,
    /// needed key absent
    MissingKey,
    NotMyTurn,
    Finished,
}

impl CipherState {
    pub fn new(alg: CipherAlg) -> Self {
        CipherState { alg, k: None, n: 0 }
    }
    pub fn has_key(&self) -> bool {
        self.k.is_some()
    }
    pub fn encrypt_with_ad(&mut self, ad: &[u8], pt: &[u8]) -> Result<Vec<u8>, RefErr> {
        match self.k {
            None => Ok(pt.to_vec()),
            Some(k) => {
                if self.n == u64::MAX {
                    return Err(RefErr::Exhausted);
                }
                let c = self.alg.encrypt(&k, self.n, ad, pt);
                self.n += 1;
                Ok(c)
            },
        }
    }
    pub fn decrypt_with_ad(&mut self, ad: &[u8], ct: &[u8]) -> Result<Vec<u8>, RefErr> {
        match self.k {
            None => Ok(ct.to_vec()),
            Some(k) => {
                if self.n == u64::MAX {
                    return Err(RefErr::Exhausted);
                }
                let p = self.alg.decrypt(&k, self.n, ad, ct).ok_or(RefErr::Decrypt)?;
                self.n += 1;
                Ok(p)
            },
        }
    }
    pub fn rekey(&mut self) {
        if let Some(k) = self.k {
            self.k = Some(self.alg.rekey(&k));
        }
    }
}

#[derive(Clone, PartialEq, Eq, Hash, Debug)]
pub struct SymmetricState {
    pub hash: HashAlg,
    pub cs: CipherState,
    pub ck: Vec<u8>,
    pub h: Vec<u8>,
}

impl SymmetricState {
    pub fn initialize(hash: HashAlg, cipher: CipherAlg, protocol_name: &[u8]) -> Self {
        let hl = hash.hashlen();
        let h = if protocol_name.len() <= hl {
            let mut v = protocol_name.to_vec();
            v.resize(hl, 0);
            v
        } else {
            hash.hash(&[protocol_name])
        };
        SymmetricState { hash, cs: CipherState::new(cipher), ck: h.clone(), h }
    }
    pub fn mix_key(&mut self, ikm: &[u8]) {
        let o = self.hash.hkdf(&self.ck, ikm, 2);
        self.ck = o[0].clone();
        self.cs.k = Some(o[1][..32].try_into().unwrap());
        self.cs.n = 0;
    }
    pub fn mix_hash(&mut self, data: &[u8]) {
        self.h = self.hash.hash(&[&self.h, data]);
    }
    pub fn mix_key_and_hash(&mut self, ikm: &[u8]) {
        let o = self.hash.hkdf(&self.ck, ikm, 3);
        self.ck = o[0].clone();
        let t = o[1].clone();
        self.mix_hash(&t);
        self.cs.k = Some(o[2][..32].try_into().unwrap());
        self.cs.n = 0;
    }
    pub fn encrypt_and_hash(&mut self, pt: &[u8]) -> Result<Vec<u8>, RefErr> {
        let h = self.h.clone();
        let c = self.cs.encrypt_with_ad(&h, pt)?;
        self.mix_hash(&c);
        Ok(c)
    }
    pub fn decrypt_and_hash(&mut self, ct: &[u8]) -> Result<Vec<u8>, RefErr> {
        let h = self.h.clone();
        let p = self.cs.decrypt_with_ad(&h, ct)?;
        self.mix_hash(ct);
        Ok(p)
    }
    /// (initiator->responder, responder->initiator)
    pub fn split(&self) -> (CipherState, CipherState) {
        let o = self.hash.hkdf(&self.ck, &[], 2);
        let mk = |k: &Vec<u8>| CipherState { alg: self.cs.alg, k: Some(k[..32].try_into().unwrap()), n: 0 };
        (mk(&o[0]), mk(&o[1]))
    }
}

#[derive(Clone, PartialEq, Eq, Hash, Debug)]
pub enum FieldKind {
    E,
    S,
    Payload,
}

/// One field of a handshake message: byte range `start..start+len` (tag included), whether it
/// is AEAD-protected.
#[derive(Clone, PartialEq, Eq, Hash, Debug)]
pub struct Field {
    pub kind: FieldKind,
    pub start: usize,
    pub len: usize,
    pub encrypted: bool,
}

#[derive(Clone, PartialEq, Eq, Hash, Debug)]
pub struct HandshakeState {
    pub proto: Proto,
    pub initiator: bool,
    pub ss: SymmetricState,
    /// (private, public)
    pub s: Option<(Vec<u8>, Vec<u8>)>,
    pub e: Option<(Vec<u8>, Vec<u8>)>,
    pub rs: Option<Vec<u8>>,
    pub re: Option<Vec<u8>>,
    pub psks: Vec<Option<[u8; 32]>>,
    /// index of the next message
    pub pos: usize,
}

pub struct WriteOut {
    pub msg: Vec<u8>,
    pub fields: Vec<Field>,
    /// HasKey() at the time the payload was encrypted
    pub payload_encrypted: bool,
}

impl HandshakeState {
    /// Initialize(handshake_pattern, initiator, prologue, s, e, rs, re) - `e` is supplied at write time.
    pub fn new(
        proto: &Proto,
        initiator: bool,
        prologue: &[u8],
        s_priv: Option<&[u8]>,
        rs: Option<&[u8]>,
        psks: &[Option<[u8; 32]>],
    ) -> Result<Self, RefErr> {
        let mut ss = SymmetricState::initialize(proto.hash, proto.cipher, proto.name.as_bytes());
        ss.mix_hash(prologue);
        let s = match s_priv {
            Some(sk) => Some((sk.to_vec(), proto.dh.pubkey(sk).ok_or(RefErr::MissingKey)?)),
            None => None,
        };
        let rs = rs.map(<[u8]>::to_vec);
        // pre-message public keys, initiator's first
        for t in &proto.pattern.pre_i {
            assert_eq!(*t, Tok::S);
            let k = if initiator { s.as_ref().map(|x| x.1.clone()) } else { rs.clone() };
            ss.mix_hash(&k.ok_or(RefErr::MissingKey)?);
        }
        for t in &proto.pattern.pre_r {
            assert_eq!(*t, Tok::S);
            let k = if initiator { rs.clone() } else { s.as_ref().map(|x| x.1.clone()) };
            ss.mix_hash(&k.ok_or(RefErr::MissingKey)?);
        }
        let mut pk = psks.to_vec();
        pk.resize(10, None);
        Ok(HandshakeState { proto: proto.clone(), initiator, ss, s, e: None, rs, re: None, psks: pk, pos: 0 })
    }

    pub fn n_msgs(&self) -> usize {
        self.proto.pattern.msgs.len()
    }
    pub fn my_turn(&self) -> bool {
        (self.pos % 2 == 0) == self.initiator
    }
    pub fn finished(&self) -> bool {
        self.pos >= self.n_msgs()
    }
    fn dh(&self, t: Tok) -> Result<Vec<u8>, RefErr> {
        let (mine, theirs) = match (t, self.initiator) {
            (Tok::EE, _) => (&self.e, &self.re),
            (Tok::SS, _) => (&self.s, &self.rs),
            (Tok::ES, true) | (Tok::SE, false) => (&self.e, &self.rs),
            (Tok::SE, true) | (Tok::ES, false) => (&self.s, &self.re),
            _ => unreachable!(),
        };
        let (sk, _) = mine.as_ref().ok_or(RefErr::MissingKey)?;
        let pk = theirs.as_ref().ok_or(RefErr::MissingKey)?;
        self.proto.dh.dh_noise(sk, pk).ok_or(RefErr::Dh)
    }

    /// WriteMessage(payload). `e_priv`: the ephemeral private key to use if the message has an `e`.
    /// Works on `self` directly; callers clone first if they want roll-back.
    pub fn write_message(&mut self, payload: &[u8], e_priv: Option<&[u8]>) -> Result<WriteOut, RefErr> {
        if self.finished() {
            return Err(RefErr::Finished);
        }
        if !self.my_turn() {
            return Err(RefErr::NotMyTurn);
        }
        let toks = self.proto.pattern.msgs[self.pos].clone();
        let is_psk = self.proto.pattern.has_psk();
        let mut msg = vec![];
        let mut fields = vec![];
        for t in toks {
            match t {
                Tok::E => {
                    let sk = e_priv.ok_or(RefErr::MissingKey)?;
                    let pk = self.proto.dh.pubkey(sk).ok_or(RefErr::MissingKey)?;
                    fields.push(Field { kind: FieldKind::E, start: msg.len(), len: pk.len(), encrypted: false });
                    msg.extend_from_slice(&pk);
                    self.ss.mix_hash(&pk);
                    if is_psk {
                        self.ss.mix_key(&pk);
                    }
                    self.e = Some((sk.to_vec(), pk));
                },
                Tok::S => {
                    let pk = self.s.as_ref().ok_or(RefErr::MissingKey)?.1.clone();
                    let enc = self.ss.cs.has_key();
                    let c = self.ss.encrypt_and_hash(&pk)?;
                    fields.push(Field { kind: FieldKind::S, start: msg.len(), len: c.len(), encrypted: enc });
                    msg.extend_from_slice(&c);
                },
                Tok::Psk(n) => {
                    let psk = self.psks[usize::from(n)].ok_or(RefErr::MissingPsk)?;
                    self.ss.mix_key_and_hash(&psk);
                },
                d => {
                    let out = self.dh(d)?;
                    self.ss.mix_key(&out);
                },
            }
        }
        let enc = self.ss.cs.has_key();
        let c = self.ss.encrypt_and_hash(payload)?;
        fields.push(Field { kind: FieldKind::Payload, start: msg.len(), len: c.len(), encrypted: enc });
        msg.extend_from_slice(&c);
        self.pos += 1;
        Ok(WriteOut { msg, fields, payload_encrypted: enc })
    }

    /// ReadMessage(message) -> payload
    pub fn read_message(&mut self, message: &[u8]) -> Result<Vec<u8>, RefErr> {
        if self.finished() {
            return Err(RefErr::Finished);
        }
        if self.my_turn() {
            return Err(RefErr::NotMyTurn);
        }
        let toks = self.proto.pattern.msgs[self.pos].clone();
        let is_psk = self.proto.pattern.has_psk();
        let publen = self.proto.dh.publen();
        let mut rest = message;
        for t in toks {
            match t {
                Tok::E => {
                    if rest.len() < publen {
                        return Err(RefErr::Short);
                    }
                    let pk = rest[..publen].to_vec();
                    rest = &rest[publen..];
                    self.ss.mix_hash(&pk);
                    if is_psk {
                        self.ss.mix_key(&pk);
                    }
                    self.re = Some(pk);
                },
                Tok::S => {
                    let l = publen + if self.ss.cs.has_key() { 16 } else { 0 };
                    if rest.len() < l {
                        return Err(RefErr::Short);
                    }
                    let pk = self.ss.decrypt_and_hash(&rest[..l])?;
                    rest = &rest[l..];
                    self.rs = Some(pk);
                },
                Tok::Psk(n) => {
                    let psk = self.psks[usize::from(n)].ok_or(RefErr::MissingPsk)?;
                    self.ss.mix_key_and_hash(&psk);
                },
                d => {
                    let out = self.dh(d)?;
                    self.ss.mix_key(&out);
                },
            }
        }
        let p = self.ss.decrypt_and_hash(rest)?;
        self.pos += 1;
        Ok(p)
    }

    /// Field map and total overhead of the next message, computed by walking its tokens with the
    /// model's HasKey(): (fields with payload length 0, overhead).
    pub fn next_overhead(&self) -> Option<(Vec<Field>, usize)> {
        if self.finished() {
            return None;
        }
        let toks = &self.proto.pattern.msgs[self.pos];
        let is_psk = self.proto.pattern.has_psk();
        let publen = self.proto.dh.publen();
        let mut has_key = self.ss.cs.has_key();
        let mut off = 0;
        let mut fields = vec![];
        for t in toks {
            match t {
                Tok::E => {
                    fields.push(Field { kind: FieldKind::E, start: off, len: publen, encrypted: false });
                    off += publen;
                    if is_psk {
                        has_key = true;
                    }
                },
                Tok::S => {
                    let l = publen + if has_key { 16 } else { 0 };
                    fields.push(Field { kind: FieldKind::S, start: off, len: l, encrypted: has_key });
                    off += l;
                },
                _ => has_key = true,
            }
        }
        let l = if has_key { 16 } else { 0 };
        fields.push(Field { kind: FieldKind::Payload, start: off, len: l, encrypted: has_key });
        Some((fields, off + l))
    }
}

/// Static description of a protocol's messages: for each message the overhead (bytes other than
/// the payload) when every earlier message was processed. Independent of key values.
pub fn overheads(proto: &Proto) -> Vec<usize> {
    let is_psk = proto.pattern.has_psk();
    let publen = proto.dh.publen();
    let mut has_key = false;
    let mut out = vec![];
    for m in &proto.pattern.msgs {
        let mut off = 0;
        for t in m {
            match t {
                Tok::E => {
                    off += publen;
                    if is_psk {
                        has_key = true;
                    }
                },
                Tok::S => off += publen + if has_key { 16 } else { 0 },
                _ => has_key = true,
            }
        }
        out.push(off + if has_key { 16 } else { 0 });
    }
    out
}

/// Field map of handshake message `k` carrying a payload of `plen` bytes (Appendix B of the
/// design): byte ranges of `e`, `s` (+tag) and the payload (+tag) and whether each is encrypted.
/// Depends only on the pattern (HasKey evolves with the tokens).
pub fn field_map(proto: &Proto, k: usize, plen: usize) -> Vec<Field> {
    let is_psk = proto.pattern.has_psk();
    let publen = proto.dh.publen();
    let mut has_key = false;
    let mut fields = vec![];
    for (j, m) in proto.pattern.msgs.iter().enumerate() {
        let mut off = 0;
        for t in m {
            match t {
                Tok::E => {
                    if j == k {
                        fields.push(Field { kind: FieldKind::E, start: off, len: publen, encrypted: false });
                    }
                    off += publen;
                    if is_psk {
                        has_key = true;
                    }
                },
                Tok::S => {
                    let l = publen + if has_key { 16 } else { 0 };
                    if j == k {
                        fields.push(Field { kind: FieldKind::S, start: off, len: l, encrypted: has_key });
                    }
                    off += l;
                },
                _ => has_key = true,
            }
        }
        if j == k {
            fields.push(Field { kind: FieldKind::Payload, start: off, len: plen + if has_key { 16 } else { 0 }, encrypted: has_key });
            break;
        }
    }
    fields
}
