//! refnoise: a deliberately boring second implementation of the Noise Protocol Framework
//! (revision 34, plus the P-256 and XChaChaPoly extensions snow documents), written from the
//! specification text and not from snow's source. It depends on no part of snow.
pub mod kat;
pub mod patterns;
pub mod prims;
pub mod state;
pub mod vectors;

pub use patterns::{Pattern, Proto, Tok};
pub use prims::{CipherAlg, DhAlg, HashAlg};
pub use state::{CipherState, Field, FieldKind, HandshakeState, RefErr, SymmetricState};
