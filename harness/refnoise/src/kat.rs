//! Known-answer tests for the reference primitives (RFC 8439, draft-xchacha, NIST GCM, RFC 7748,
//! RFC 5903, RFC 4231, RFC 5869, FIPS 180 / RFC 7693 "abc"). Failure means the *model* is wrong.

use crate::prims::*;

fn h(s: &str) -> Vec<u8> {
    hex::decode(s.replace([' ', '\n'], "")).unwrap()
}

/// Runs every KAT; returns the number passed or the first failure.
pub fn run() -> Result<usize, String> {
    let mut n = 0;
    let mut ck = |name: &str, got: Vec<u8>, want: Vec<u8>| -> Result<(), String> {
        if got == want {
            n += 1;
            Ok(())
        } else {
            Err(format!("KAT {name}: got {} want {}", hex::encode(got), hex::encode(want)))
        }
    };
    // hashes
    ck("sha256 abc", HashAlg::Sha256.hash(&[b"abc"]), h("ba7816bf8f01cfea414140de5dae2223b00361a396177a9cb410ff61f20015ad"))?;
    ck("sha512 abc", HashAlg::Sha512.hash(&[b"a", b"bc"]), h("ddaf35a193617abacc417349ae20413112e6fa4e89a97ea20a9eeee64b55d39a2192992a274fc1a836ba3c23a3feebbd454d4423643ce80e2a9ac94fa54ca49f"))?;
    ck("blake2b abc", HashAlg::Blake2b.hash(&[b"abc"]), h("ba80a53f981c4d0d6a2797b69f12f6e94c212f14685ac4b74b12bb6fdbffa2d17d87c5392aab792dc252d5de4533cc9518d38aa8dbf1925ab92386edd4009923"))?;
    ck("blake2s abc", HashAlg::Blake2s.hash(&[b"abc"]), h("508c5e8c327c14e2e1a72ba34eeb452f37458b209ed63a294d999b4c86675982"))?;
    // HMAC RFC 4231 cases 1, 2
    ck("hmac256 tc1", HashAlg::Sha256.hmac(&[0x0b; 20], b"Hi There"), h("b0344c61d8db38535ca8afceaf0bf12b881dc200c9833da726e9376c2e32cff7"))?;
    ck("hmac512 tc1", HashAlg::Sha512.hmac(&[0x0b; 20], b"Hi There"), h("87aa7cdea5ef619d4ff0b4241a1d6cb02379f4e2ce4ec2787ad0b30545e17cdedaa833b7d6b8a702038b274eaea3f4e4be9d914eeb61f1702e696c203a126854"))?;
    ck("hmac256 tc2", HashAlg::Sha256.hmac(b"Jefe", b"what do ya want for nothing?"), h("5bdcc146bf60754e6a042426089575c75a003f089d2739839dec58b964ec3843"))?;
    // HKDF RFC 5869 test case 3 (empty salt, empty info): first 42 bytes of T1 || T2
    let okm = HashAlg::Sha256.hkdf(&[], &[0x0b; 22], 2).concat();
    ck("hkdf tc3", okm[..42].to_vec(), h("8da4e775a563c18f715f802a063c5a31b8a11f5c5ee1879ec3454e5f3c738d2d9d201395faa4b61a96c8"))?;
    // hkdf crate vs the spec text written over hmac, all hashes, 1..3 outputs, and ring's HMAC
    for a in ALL_HASHES {
        for n_out in 1..=3 {
            for (ckey, ikm) in [(vec![7u8; a.hashlen()], vec![1u8, 2, 3]), (vec![0u8; a.hashlen()], vec![]), (vec![0xffu8; a.hashlen()], vec![9u8; 65])] {
                ck("hkdf==spec", a.hkdf(&ckey, &ikm, n_out).concat(), a.hkdf_spec(&ckey, &ikm, n_out).concat())?;
            }
        }
        if let Some(r) = a.hmac_ring(b"key", b"data") {
            ck("hmac==ring", a.hmac(b"key", b"data"), r)?;
        }
    }
    // AEAD
    let key: [u8; 32] = h("808182838485868788898a8b8c8d8e8f909192939495969798999a9b9c9d9e9f").try_into().unwrap();
    let aad = h("50515253c0c1c2c3c4c5c6c7");
    let pt = b"Ladies and Gentlemen of the class of '99: If I could offer you only one tip for the future, sunscreen would be it.";
    let ct = aead_raw_seal(false, &key, h("070000004041424344454647").try_into().unwrap(), &aad, pt);
    ck("rfc8439 2.8.2 tag", ct[ct.len() - 16..].to_vec(), h("1ae10b594f09e26a7e902ecbd0600691"))?;
    ck("rfc8439 2.8.2 ct", ct[..16].to_vec(), h("d31a8d34648e60db7b86afbc53ef7ec2"))?;
    let ct = xchacha_raw_seal(&key, &h("404142434445464748494a4b4c4d4e4f5051525354555657").try_into().unwrap(), &aad, pt);
    ck("xchacha A.1 tag", ct[ct.len() - 16..].to_vec(), h("c0875924c1c7987947deafd8780acf49"))?;
    ck("xchacha A.1 ct", ct[..16].to_vec(), h("bd6d179d3e83d43b9576579493c0e939"))?;
    // HChaCha20 test vector (draft-xchacha 2.2.1)
    let hk: [u8; 32] = h("000102030405060708090a0b0c0d0e0f101112131415161718191a1b1c1d1e1f").try_into().unwrap();
    ck("hchacha20", hchacha20_pub(&hk, &h("000000090000004a0000000031415927").try_into().unwrap()).to_vec(), h("82413b4227b27bfed30e42508a877d73a0f9e4d58a74a853c12ec41326d3ecdc"))?;
    // NIST GCM test cases 13, 14 (AES-256, zero key, zero IV) = Noise nonce 0
    ck("gcm tc13", CipherAlg::AesGcm.encrypt(&[0; 32], 0, &[], &[]), h("530f8afbc74536b9a963b4f1c4cb738b"))?;
    ck("gcm tc14", CipherAlg::AesGcm.encrypt(&[0; 32], 0, &[], &[0; 16]), h("cea7403d4d606b6e074ec5d3baf39d18d0d1c8a799996bf0265b98b5d48ab919"))?;
    // Noise nonce layouts against the raw calls
    let n64 = 0x0102_0304_0506_0708u64;
    ck("chacha layout", CipherAlg::ChaChaPoly.encrypt(&key, n64, &aad, pt), aead_raw_seal(false, &key, h("000000000807060504030201").try_into().unwrap(), &aad, pt))?;
    ck("gcm layout", CipherAlg::AesGcm.encrypt(&key, n64, &aad, pt), aead_raw_seal(true, &key, h("000000000102030405060708").try_into().unwrap(), &aad, pt))?;
    ck("xchacha layout", CipherAlg::XChaChaPoly.encrypt(&key, n64, &aad, pt), xchacha_raw_seal(&key, &h("000000000000000000000000000000000807060504030201").try_into().unwrap(), &aad, pt))?;
    for a in ALL_CIPHERS {
        let c = a.encrypt(&key, 5, &aad, pt);
        ck("roundtrip", a.decrypt(&key, 5, &aad, &c).unwrap_or_default(), pt.to_vec())?;
        ck("wrong nonce", a.decrypt(&key, 6, &aad, &c).unwrap_or_default(), vec![])?;
    }
    // X25519 RFC 7748
    ck("x25519 5.2 #1", DhAlg::X25519.dh(&h("a546e36bf0527c9d3b16154b82465edd62144c0ac1fc5a18506a2244ba449ac4"), &h("e6db6867583030db3594c1a424b15f7c726624ec26b3353b10a903a6d0ab1c4c")).unwrap_or_default(), h("c3da55379de9c6908e94ea4df28d084f32eccf03491c71f754b4075577a28552"))?;
    let (a, b) = (h("77076d0a7318a57d3c16c17251b26645df4c2f87ebc0992ab177fba51db92c2a"), h("5dab087e624a8a4b79e17f8b83800ee66f3bb1292618b6fd1c2f8b27ff88e0eb"));
    ck("x25519 6.1 pubA", DhAlg::X25519.pubkey(&a).unwrap_or_default(), h("8520f0098930a754748b7ddcb43ef75a0dbf3a0d26381af4eba4a98eaa9b4e6a"))?;
    ck("x25519 6.1 pubB", DhAlg::X25519.pubkey(&b).unwrap_or_default(), h("de9edb7d7b7dc1b4d35b61c2ece435373f8343c85b78674dadfc7e146f882b4f"))?;
    ck("x25519 6.1 shared", DhAlg::X25519.dh(&a, &DhAlg::X25519.pubkey(&b).unwrap()).unwrap_or_default(), h("4a5d9d5ba4ce2de1728e3bf480350f25e07e21c947d19e3376f09b3c1e161742"))?;
    // P-256 RFC 5903 8.1
    let (i, r) = (h("C88F01F510D9AC3F70A292DAA2316DE544E9AAB8AFE84049C62A9C57862D1433"), h("C6EF9C5D78AE012A011164ACB397CE2088685D8F06BF9BE0B283AB46476BEE53"));
    let gi = h("04DAD0B65394221CF9B051E1FECA5787D098DFE637FC90B9EF945D0C37725811805271A0461CDB8252D61F1C456FA3E59AB1F45B33ACCF5F58389E0577B8990BB3");
    let gr = h("04D12DFB5289C8D4F81208B70270398C342296970A0BCCB74C736FC7554494BF6356FBF3CA366CC23E8157854C13C58D6AAC23F046ADA30F8353E74F33039872AB");
    ck("p256 pub i", DhAlg::P256.pubkey(&i).unwrap_or_default(), gi.clone())?;
    ck("p256 pub r", DhAlg::P256.pubkey(&r).unwrap_or_default(), gr.clone())?;
    ck("p256 shared", DhAlg::P256.dh(&i, &gr).unwrap_or_default(), h("D6840F6B42F6EDAFD13116E0E12565202FEF8E9ECE7DCE03812464D04B9442DE"))?;
    ck("p256 shared sym", DhAlg::P256.dh(&r, &gi).unwrap_or_default(), h("D6840F6B42F6EDAFD13116E0E12565202FEF8E9ECE7DCE03812464D04B9442DE"))?;
    Ok(n)
}
