//! Handshake patterns, parsed at start-up from the specification's own arrow notation
//! (Noise rev 34, sections 7.4 - 7.6), and psk modifiers per section 9.

use crate::prims::{CipherAlg, DhAlg, HashAlg, ALL_CIPHERS, ALL_DHS, ALL_HASHES};

#[derive(Clone, Copy, PartialEq, Eq, Hash, Debug, PartialOrd, Ord)]
pub enum Tok {
    E,
    S,
    EE,
    ES,
    SE,
    SS,
    Psk(u8),
}

/// The spec text. `->` initiator to responder, `<-` the reverse; lines before `...` are pre-messages.
pub const SPEC_PATTERNS: &str = "
N:
  <- s
  ...
  -> e, es

K:
  -> s
  <- s
  ...
  -> e, es, ss

X:
  <- s
  ...
  -> e, es, s, ss

NN:
  -> e
  <- e, ee

NK:
  <- s
  ...
  -> e, es
  <- e, ee

NX:
  -> e
  <- e, ee, s, es

XN:
  -> e
  <- e, ee
  -> s, se

XK:
  <- s
  ...
  -> e, es
  <- e, ee
  -> s, se

XX:
  -> e
  <- e, ee, s, es
  -> s, se

KN:
  -> s
  ...
  -> e
  <- e, ee, se

KK:
  -> s
  <- s
  ...
  -> e, es, ss
  <- e, ee, se

KX:
  -> s
  ...
  -> e
  <- e, ee, se, s, es

IN:
  -> e, s
  <- e, ee, se

IK:
  <- s
  ...
  -> e, es, s, ss
  <- e, ee, se

IX:
  -> e, s
  <- e, ee, se, s, es

NK1:
  <- s
  ...
  -> e
  <- e, ee, es

NX1:
  -> e
  <- e, ee, s
  -> es

X1N:
  -> e
  <- e, ee
  -> s
  <- se

X1K:
  <- s
  ...
  -> e, es
  <- e, ee
  -> s
  <- se

XK1:
  <- s
  ...
  -> e
  <- e, ee, es
  -> s, se

X1K1:
  <- s
  ...
  -> e
  <- e, ee, es
  -> s
  <- se

X1X:
  -> e
  <- e, ee, s, es
  -> s
  <- se

XX1:
  -> e
  <- e, ee, s
  -> es, s, se

X1X1:
  -> e
  <- e, ee, s
  -> es, s
  <- se

K1N:
  -> s
  ...
  -> e
  <- e, ee
  -> se

K1K:
  -> s
  <- s
  ...
  -> e, es
  <- e, ee
  -> se

KK1:
  -> s
  <- s
  ...
  -> e
  <- e, ee, se, es

K1K1:
  -> s
  <- s
  ...
  -> e
  <- e, ee, es
  -> se

K1X:
  -> s
  ...
  -> e
  <- e, ee, s, es
  -> se

KX1:
  -> s
  ...
  -> e
  <- e, ee, se, s
  -> es

K1X1:
  -> s
  ...
  -> e
  <- e, ee, s
  -> se, es

I1N:
  -> e, s
  <- e, ee
  -> se

I1K:
  <- s
  ...
  -> e, es, s
  <- e, ee
  -> se

IK1:
  <- s
  ...
  -> e, s
  <- e, ee, se, es

I1K1:
  <- s
  ...
  -> e, s
  <- e, ee, es
  -> se

I1X:
  -> e, s
  <- e, ee, s, es
  -> se

IX1:
  -> e, s
  <- e, ee, se, s
  -> es

I1X1:
  -> e, s
  <- e, ee, s
  -> se, es
";

#[derive(Clone, PartialEq, Eq, Hash, Debug)]
pub struct Pattern {
    pub name: String,
    /// pre-message tokens of the initiator / responder (only `E`/`S`)
    pub pre_i: Vec<Tok>,
    pub pre_r: Vec<Tok>,
    /// message k is sent by the initiator iff k is even
    pub msgs: Vec<Vec<Tok>>,
}

fn parse_toks(s: &str) -> Vec<Tok> {
    s.split(',')
        .map(|t| match t.trim() {
            "e" => Tok::E,
            "s" => Tok::S,
            "ee" => Tok::EE,
            "es" => Tok::ES,
            "se" => Tok::SE,
            "ss" => Tok::SS,
            x => panic!("refnoise: bad token {x:?} in the embedded spec table"),
        })
        .collect()
}

pub fn base_patterns() -> Vec<Pattern> {
    let mut out = vec![];
    for block in SPEC_PATTERNS.split("\n\n") {
        let mut lines = block.lines().map(str::trim).filter(|l| !l.is_empty());
        let Some(head) = lines.next() else { continue };
        let name = head.trim_end_matches(':').to_string();
        let body: Vec<&str> = lines.collect();
        let split = body.iter().position(|l| *l == "...");
        let (pre, msgs) = match split {
            Some(i) => (&body[..i], &body[i + 1..]),
            None => (&body[..0], &body[..]),
        };
        let mut p = Pattern { name, pre_i: vec![], pre_r: vec![], msgs: vec![] };
        for l in pre {
            if let Some(r) = l.strip_prefix("->") {
                p.pre_i = parse_toks(r);
            } else if let Some(r) = l.strip_prefix("<-") {
                p.pre_r = parse_toks(r);
            } else {
                panic!("refnoise: bad pre-message line {l:?}");
            }
        }
        for (k, l) in msgs.iter().enumerate() {
            let want = if k % 2 == 0 { "->" } else { "<-" };
            let r = l.strip_prefix(want).unwrap_or_else(|| panic!("refnoise: direction of {l:?} in {}", p.name));
            p.msgs.push(parse_toks(r));
        }
        out.push(p);
    }
    assert_eq!(out.len(), 38, "refnoise: the spec table has 38 patterns");
    for p in &out {
        validate_pattern(p);
    }
    out
}

/// Validity rules of spec section 7.3, used to check the embedded table itself.
pub fn validate_pattern(p: &Pattern) {
    // what each side has sent so far
    let (mut ie, mut is, mut re, mut rs) = (false, p.pre_i.contains(&Tok::S), false, p.pre_r.contains(&Tok::S));
    assert!(!p.pre_i.contains(&Tok::E) && !p.pre_r.contains(&Tok::E), "no pre-message e in the 38 patterns");
    let mut seen_dh: Vec<Tok> = vec![];
    for (k, m) in p.msgs.iter().enumerate() {
        let init_sends = k % 2 == 0;
        for t in m {
            match t {
                Tok::E => {
                    let f = if init_sends { &mut ie } else { &mut re };
                    assert!(!*f, "{}: e sent twice", p.name);
                    *f = true;
                },
                Tok::S => {
                    let f = if init_sends { &mut is } else { &mut rs };
                    assert!(!*f, "{}: s sent twice", p.name);
                    *f = true;
                },
                Tok::EE => assert!(ie && re, "{}: ee before both e", p.name),
                Tok::ES => assert!(ie && rs, "{}: es before e/s", p.name),
                Tok::SE => assert!(is && re, "{}: se before s/e", p.name),
                Tok::SS => assert!(is && rs, "{}: ss before both s", p.name),
                Tok::Psk(_) => {},
            }
            if matches!(t, Tok::EE | Tok::ES | Tok::SE | Tok::SS) {
                assert!(!seen_dh.contains(t), "{}: DH repeated", p.name);
                seen_dh.push(*t);
            }
        }
    }
}

impl Pattern {
    pub fn is_oneway(&self) -> bool {
        self.msgs.len() == 1
    }
    /// Apply psk modifiers (section 9): psk0 at the front of the first message, pskN at the end
    /// of message N. `None` if an index exceeds the number of messages.
    pub fn with_psks(&self, psks: &[u8]) -> Option<Pattern> {
        let mut p = self.clone();
        for &n in psks {
            if n == 0 {
                p.msgs[0].insert(0, Tok::Psk(0));
            } else {
                let m = p.msgs.get_mut(usize::from(n) - 1)?;
                m.push(Tok::Psk(n));
            }
        }
        Some(p)
    }
    pub fn has_psk(&self) -> bool {
        self.msgs.iter().flatten().any(|t| matches!(t, Tok::Psk(_)))
    }
    /// Does `role` (true = initiator) send its own static key in a message or a pre-message?
    pub fn role_uses_own_static(&self, initiator: bool) -> bool {
        let pre = if initiator { &self.pre_i } else { &self.pre_r };
        if pre.contains(&Tok::S) {
            return true;
        }
        self.msgs.iter().enumerate().any(|(k, m)| (k % 2 == 0) == initiator && m.contains(&Tok::S))
    }
    /// Is the peer's static key a pre-message for `role`?
    pub fn role_needs_remote_static(&self, initiator: bool) -> bool {
        let pre = if initiator { &self.pre_r } else { &self.pre_i };
        pre.contains(&Tok::S)
    }
    /// Index of the message (0-based) in which `role` receives the peer's static key, if any.
    pub fn remote_static_msg(&self, initiator: bool) -> Option<usize> {
        self.msgs.iter().enumerate().position(|(k, m)| (k % 2 == 0) != initiator && m.contains(&Tok::S))
    }
}

#[derive(Clone, PartialEq, Eq, Hash, Debug)]
pub struct Proto {
    pub name: String,
    pub base: String,
    pub psks: Vec<u8>,
    pub pattern: Pattern,
    pub dh: DhAlg,
    pub cipher: CipherAlg,
    pub hash: HashAlg,
}

impl Proto {
    pub fn new(base: &Pattern, psks: &[u8], dh: DhAlg, cipher: CipherAlg, hash: HashAlg) -> Option<Proto> {
        let pattern = base.with_psks(psks)?;
        let mods: Vec<String> = psks.iter().map(|n| format!("psk{n}")).collect();
        let name = format!("Noise_{}{}_{}_{}_{}", base.name, mods.join("+"), dh.name(), cipher.name(), hash.name());
        Some(Proto { name, base: base.name.clone(), psks: psks.to_vec(), pattern, dh, cipher, hash })
    }
    /// Parse a name produced by `Proto::new` (or any valid name with psk modifiers only).
    pub fn parse(name: &str) -> Option<Proto> {
        let r = recognise(name, &Features { p256: true, xchacha: true, hfs: false })?;
        if r.modifiers.iter().any(|m| !matches!(m, Modifier::Psk(_))) || r.kem.is_some() {
            return None;
        }
        let psks: Vec<u8> = r.modifiers.iter().map(|m| if let Modifier::Psk(n) = m { *n } else { 0 }).collect();
        let base = base_patterns().into_iter().find(|p| p.name == r.pattern)?;
        let mut p = Proto::new(&base, &psks, DhAlg::from_name(&r.dh)?, CipherAlg::from_name(&r.cipher)?, HashAlg::from_name(&r.hash)?)?;
        p.name = name.to_string();
        Some(p)
    }
    pub fn n_msgs(&self) -> usize {
        self.pattern.msgs.len()
    }
}

/// All subsets (ascending order) of psk indices 0..=n_msgs.
pub fn psk_subsets(n_msgs: usize) -> Vec<Vec<u8>> {
    let k = n_msgs + 1;
    (0..(1u32 << k)).map(|mask| (0..k as u8).filter(|i| mask & (1 << i) != 0).collect()).collect()
}

/// The 556 handshake names (pattern x psk subset) on one suite.
pub fn all_protos_for_suite(dh: DhAlg, cipher: CipherAlg, hash: HashAlg) -> Vec<Proto> {
    let mut out = vec![];
    for b in base_patterns() {
        for ps in psk_subsets(b.msgs.len()) {
            out.push(Proto::new(&b, &ps, dh, cipher, hash).unwrap());
        }
    }
    out
}

pub fn all_suites() -> Vec<(DhAlg, CipherAlg, HashAlg)> {
    let mut v = vec![];
    for d in ALL_DHS {
        for c in ALL_CIPHERS {
            for h in ALL_HASHES {
                v.push((d, c, h));
            }
        }
    }
    v
}

/// All 13 344 protocol names.
pub fn all_protos() -> Vec<Proto> {
    all_suites().into_iter().flat_map(|(d, c, h)| all_protos_for_suite(d, c, h)).collect()
}

// ---------------------------------------------------------------------------------------------
// Name grammar recogniser (spec section 8 + snow's documented extensions), for C13.

#[derive(Clone, PartialEq, Eq, Hash, Debug)]
pub enum Modifier {
    Psk(u8),
    Fallback,
    Hfs,
}

#[derive(Clone, PartialEq, Eq, Debug)]
pub struct Recognised {
    pub pattern: String,
    pub modifiers: Vec<Modifier>,
    pub dh: String,
    pub kem: Option<String>,
    pub cipher: String,
    pub hash: String,
    /// the string is in the declared don't-care set (e.g. `psk01`, `psk+1`): neither acceptance
    /// nor rejection is judged.
    pub dont_care: bool,
}

#[derive(Clone, Copy, Debug)]
pub struct Features {
    pub p256: bool,
    pub xchacha: bool,
    pub hfs: bool,
}

pub const PATTERN_NAMES: [&str; 38] = [
    "N", "X", "K", "NN", "NK", "NX", "XN", "XK", "XX", "KN", "KK", "KX", "IN", "IK", "IX", "NK1", "NX1", "X1N", "X1K",
    "XK1", "X1K1", "X1X", "XX1", "X1X1", "K1N", "K1K", "KK1", "K1K1", "K1X", "KX1", "K1X1", "I1N", "I1K", "IK1",
    "I1K1", "I1X", "IX1", "I1X1",
];

/// Is `s` a psk number on which the grammar is silent (snow accepts what `u8::from_str` accepts:
/// an optional leading `+`, leading zeros)? Canonical decimals are not don't-care.
fn psk_number(s: &str) -> Option<(u8, bool)> {
    if s.is_empty() {
        return None;
    }
    let canonical = s.bytes().all(|b| b.is_ascii_digit()) && (s == "0" || !s.starts_with('0'));
    if canonical {
        return s.parse::<u8>().ok().map(|n| (n, false));
    }
    // non-canonical spellings of a number <= 255: "+1", "01", "+001"
    let t = s.strip_prefix('+').unwrap_or(s);
    if !t.is_empty() && t.bytes().all(|b| b.is_ascii_digit()) {
        let t2 = t.trim_start_matches('0');
        let v = if t2.is_empty() { Some(0u32) } else if t2.len() <= 3 { t2.parse::<u32>().ok() } else { None };
        if let Some(v) = v {
            if v <= 255 {
                return Some((v as u8, true));
            }
        }
    }
    None
}

/// `Some` iff the string is a well-formed Noise protocol name whose components are supported.
pub fn recognise(s: &str, f: &Features) -> Option<Recognised> {
    let fields: Vec<&str> = s.split('_').collect();
    if fields.len() != 5 || fields[0] != "Noise" {
        return None;
    }
    // handshake field: longest pattern name that is a prefix, followed by modifiers
    let hs = fields[1];
    let mut best: Option<&str> = None;
    for p in PATTERN_NAMES {
        if hs.starts_with(p) && best.map_or(true, |b| p.len() > b.len()) {
            best = Some(p);
        }
    }
    let pattern = best?;
    let rest = &hs[pattern.len()..];
    let mut modifiers = vec![];
    let mut dont_care = false;
    if !rest.is_empty() {
        // '+' separates modifiers; a psk number spelled "+1" makes "psk+1" split oddly - snow splits
        // on every '+', so "psk+1" is the modifiers "psk" and "1": not valid. Follow the plain split.
        for m in rest.split('+') {
            let md = if let Some(num) = m.strip_prefix("psk") {
                let (n, dc) = psk_number(num)?;
                dont_care |= dc;
                Modifier::Psk(n)
            } else if m == "fallback" {
                Modifier::Fallback
            } else if m == "hfs" && f.hfs {
                Modifier::Hfs
            } else {
                return None;
            };
            if modifiers.contains(&md) {
                return None;
            }
            modifiers.push(md);
        }
    }
    // dh field (+kem in the hfs build)
    let (dh, kem) = if f.hfs {
        match fields[2].split_once('+') {
            Some((d, k)) => (d, Some(k)),
            None => (fields[2], None),
        }
    } else {
        (fields[2], None)
    };
    let dh_ok = dh == "25519" || dh == "448" || (dh == "P256" && f.p256);
    if !dh_ok {
        return None;
    }
    if let Some(k) = kem {
        if k != "Kyber1024" {
            return None;
        }
    }
    // the hfs modifier without a KEM (or the other way round): snow refuses the name at parse time; the name grammar
    // the property states does not say where such a name is to be refused - not judged
    if f.hfs && (modifiers.contains(&Modifier::Hfs) != kem.is_some()) {
        dont_care = true;
    }
    // Curve448 is in snow's name table but no resolver provides it: whether it counts as a "supported" primitive
    // name is not judged
    if dh == "448" {
        dont_care = true;
    }
    let cipher = fields[3];
    if !(cipher == "ChaChaPoly" || cipher == "AESGCM" || (cipher == "XChaChaPoly" && f.xchacha)) {
        return None;
    }
    let hash = fields[4];
    if !["SHA256", "SHA512", "BLAKE2s", "BLAKE2b"].contains(&hash) {
        return None;
    }
    Some(Recognised {
        pattern: pattern.to_string(),
        modifiers,
        dh: dh.to_string(),
        kem: kem.map(str::to_string),
        cipher: cipher.to_string(),
        hash: hash.to_string(),
        dont_care,
    })
}
