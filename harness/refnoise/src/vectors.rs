//! Binding the reference model: it must reproduce the third-party *cacophony* vectors
//! (Haskell implementation; every handshake/transport ciphertext and the handshake hash).

use crate::{patterns::Proto, state::HandshakeState};
use serde_json::Value;

fn hx(v: &Value, k: &str) -> Option<Vec<u8>> {
    v.get(k).and_then(Value::as_str).map(|s| hex::decode(s).expect("hex in vector file"))
}

fn psks(v: &Value, k: &str) -> Vec<Option<[u8; 32]>> {
    v.get(k)
        .and_then(Value::as_array)
        .map(|a| a.iter().map(|x| Some(hex::decode(x.as_str().unwrap()).unwrap().try_into().unwrap())).collect())
        .unwrap_or_default()
}

#[derive(Debug, Default, Clone)]
pub struct VectorReport {
    pub total_in_file: usize,
    pub validated: usize,
    pub skipped_unsupported: usize,
    pub messages_compared: usize,
}

/// Replays every vector the model supports (25519; P-256 is absent from cacophony, 448 is not
/// implemented by any resolver). Any mismatch is an error (the model is wrong, not snow).
pub fn validate(json_text: &str) -> Result<VectorReport, String> {
    let root: Value = serde_json::from_str(json_text).map_err(|e| format!("vector file: {e}"))?;
    let vs = root["vectors"].as_array().ok_or("vector file: no vectors")?;
    let mut rep = VectorReport { total_in_file: vs.len(), ..Default::default() };
    for v in vs {
        let name = v["protocol_name"].as_str().ok_or("no protocol_name")?;
        let Some(proto) = Proto::parse(name) else {
            rep.skipped_unsupported += 1;
            continue;
        };
        // the psk list in the vector is in modifier order: the k-th listed psk belongs to the k-th psk modifier
        let place = |list: Vec<Option<[u8; 32]>>| {
            let mut out = vec![None; 10];
            for (k, p) in list.into_iter().enumerate() {
                if let Some(idx) = proto.psks.get(k) {
                    out[usize::from(*idx)] = p;
                }
            }
            out
        };
        let mut ini = HandshakeState::new(
            &proto,
            true,
            &hx(v, "init_prologue").unwrap_or_default(),
            hx(v, "init_static").as_deref(),
            hx(v, "init_remote_static").as_deref(),
            &place(psks(v, "init_psks")),
        )
        .map_err(|e| format!("{name}: init {e:?}"))?;
        let mut res = HandshakeState::new(
            &proto,
            false,
            &hx(v, "resp_prologue").unwrap_or_default(),
            hx(v, "resp_static").as_deref(),
            hx(v, "resp_remote_static").as_deref(),
            &place(psks(v, "resp_psks")),
        )
        .map_err(|e| format!("{name}: resp {e:?}"))?;
        let ie = hx(v, "init_ephemeral");
        let re = hx(v, "resp_ephemeral");
        let msgs = v["messages"].as_array().ok_or("no messages")?;
        let nh = proto.n_msgs();
        let mut split = None;
        for (k, m) in msgs.iter().enumerate() {
            let payload = hx(m, "payload").unwrap();
            let want = hx(m, "ciphertext").unwrap();
            if k < nh {
                let (w, r, e) = if k % 2 == 0 { (&mut ini, &mut res, &ie) } else { (&mut res, &mut ini, &re) };
                let out = w.write_message(&payload, e.as_deref()).map_err(|e| format!("{name}: write {k}: {e:?}"))?;
                if out.msg != want {
                    return Err(format!("{name}: handshake message {k} differs from the vector"));
                }
                let got = r.read_message(&want).map_err(|e| format!("{name}: read {k}: {e:?}"))?;
                if got != payload {
                    return Err(format!("{name}: payload {k} differs"));
                }
                if k == nh - 1 {
                    if ini.ss.h != res.ss.h {
                        return Err(format!("{name}: handshake hashes differ"));
                    }
                    if let Some(hh) = hx(v, "handshake_hash") {
                        if hh != ini.ss.h {
                            return Err(format!("{name}: handshake_hash differs from the vector"));
                        }
                    }
                    split = Some((ini.ss.split(), res.ss.split()));
                }
            } else {
                let ((i2r_i, r2i_i), (i2r_r, r2i_r)) = split.as_mut().unwrap();
                let from_init = proto.pattern.is_oneway() || (k - nh) % 2 == (nh % 2);
                // after an odd number of handshake messages the responder speaks first
                let (w, r) = if from_init { (i2r_i, i2r_r) } else { (r2i_r, r2i_i) };
                let c = w.encrypt_with_ad(&[], &payload).map_err(|e| format!("{name}: t-write {e:?}"))?;
                if c != want {
                    return Err(format!("{name}: transport message {k} differs from the vector"));
                }
                let p = r.decrypt_with_ad(&[], &want).map_err(|e| format!("{name}: t-read {e:?}"))?;
                if p != payload {
                    return Err(format!("{name}: transport payload {k} differs"));
                }
            }
            rep.messages_compared += 1;
        }
        rep.validated += 1;
    }
    Ok(rep)
}
