//! Reference primitives. Wherever an implementation other than the one snow's default
//! resolver wraps exists offline, it is used here (ring for SHA-2 / AEAD / DH, the `hmac` and
//! `hkdf` crates for HMAC / HKDF); BLAKE2 has no second implementation offline.
#![allow(deprecated)]

use blake2::{Blake2b512, Blake2s256};
use hkdf::{Hkdf, SimpleHkdf};
use hmac::{Hmac, Mac, SimpleHmac};
use ring::{aead, agreement, digest};
use sha2::{Sha256, Sha512};

#[derive(Clone, Copy, PartialEq, Eq, Hash, Debug, PartialOrd, Ord)]
pub enum HashAlg {
    Sha256,
    Sha512,
    Blake2s,
    Blake2b,
}

pub const ALL_HASHES: [HashAlg; 4] = [HashAlg::Sha256, HashAlg::Sha512, HashAlg::Blake2s, HashAlg::Blake2b];

impl HashAlg {
    pub fn name(self) -> &'static str {
        match self {
            HashAlg::Sha256 => "SHA256",
            HashAlg::Sha512 => "SHA512",
            HashAlg::Blake2s => "BLAKE2s",
            HashAlg::Blake2b => "BLAKE2b",
        }
    }
    pub fn from_name(s: &str) -> Option<Self> {
        ALL_HASHES.iter().copied().find(|h| h.name() == s)
    }
    pub fn hashlen(self) -> usize {
        match self {
            HashAlg::Sha256 | HashAlg::Blake2s => 32,
            HashAlg::Sha512 | HashAlg::Blake2b => 64,
        }
    }
    pub fn blocklen(self) -> usize {
        match self {
            HashAlg::Sha256 | HashAlg::Blake2s => 64,
            HashAlg::Sha512 | HashAlg::Blake2b => 128,
        }
    }
    pub fn hash(self, parts: &[&[u8]]) -> Vec<u8> {
        match self {
            HashAlg::Sha256 | HashAlg::Sha512 => {
                let alg = if self == HashAlg::Sha256 { &digest::SHA256 } else { &digest::SHA512 };
                let mut c = digest::Context::new(alg);
                for p in parts {
                    c.update(p);
                }
                c.finish().as_ref().to_vec()
            },
            HashAlg::Blake2s => {
                use blake2::Digest;
                let mut c = Blake2s256::new();
                for p in parts {
                    c.update(p);
                }
                c.finalize().to_vec()
            },
            HashAlg::Blake2b => {
                use blake2::Digest;
                let mut c = Blake2b512::new();
                for p in parts {
                    c.update(p);
                }
                c.finalize().to_vec()
            },
        }
    }
    /// RFC 2104 HMAC from the `hmac` crate.
    pub fn hmac(self, key: &[u8], data: &[u8]) -> Vec<u8> {
        match self {
            HashAlg::Sha256 => {
                let mut m = <Hmac<Sha256> as Mac>::new_from_slice(key).unwrap();
                m.update(data);
                m.finalize().into_bytes().to_vec()
            },
            HashAlg::Sha512 => {
                let mut m = <Hmac<Sha512> as Mac>::new_from_slice(key).unwrap();
                m.update(data);
                m.finalize().into_bytes().to_vec()
            },
            HashAlg::Blake2s => {
                let mut m = <SimpleHmac<Blake2s256> as Mac>::new_from_slice(key).unwrap();
                m.update(data);
                m.finalize().into_bytes().to_vec()
            },
            HashAlg::Blake2b => {
                let mut m = <SimpleHmac<Blake2b512> as Mac>::new_from_slice(key).unwrap();
                m.update(data);
                m.finalize().into_bytes().to_vec()
            },
        }
    }
    /// A third opinion for SHA-2: ring's HMAC.
    pub fn hmac_ring(self, key: &[u8], data: &[u8]) -> Option<Vec<u8>> {
        let alg = match self {
            HashAlg::Sha256 => ring::hmac::HMAC_SHA256,
            HashAlg::Sha512 => ring::hmac::HMAC_SHA512,
            _ => return None,
        };
        let k = ring::hmac::Key::new(alg, key);
        Some(ring::hmac::sign(&k, data).as_ref().to_vec())
    }
    /// Noise HKDF(chaining_key, ikm, n) = RFC 5869 extract(salt = ck, ikm) + expand(info = "").
    pub fn hkdf(self, ck: &[u8], ikm: &[u8], n: usize) -> Vec<Vec<u8>> {
        let hl = self.hashlen();
        let mut okm = vec![0u8; hl * n];
        match self {
            HashAlg::Sha256 => Hkdf::<Sha256>::new(Some(ck), ikm).expand(&[], &mut okm).unwrap(),
            HashAlg::Sha512 => Hkdf::<Sha512>::new(Some(ck), ikm).expand(&[], &mut okm).unwrap(),
            HashAlg::Blake2s => {
                SimpleHkdf::<Blake2s256>::new(Some(ck), ikm).expand(&[], &mut okm).unwrap()
            },
            HashAlg::Blake2b => {
                SimpleHkdf::<Blake2b512>::new(Some(ck), ikm).expand(&[], &mut okm).unwrap()
            },
        }
        okm.chunks(hl).map(<[u8]>::to_vec).collect()
    }
    /// The same HKDF written out from the spec text over `hmac` (used to cross-check `hkdf`).
    pub fn hkdf_spec(self, ck: &[u8], ikm: &[u8], n: usize) -> Vec<Vec<u8>> {
        let temp = self.hmac(ck, ikm);
        let mut outs: Vec<Vec<u8>> = vec![];
        let mut prev: Vec<u8> = vec![];
        for i in 1..=n {
            let mut inp = prev.clone();
            inp.push(i as u8);
            prev = self.hmac(&temp, &inp);
            outs.push(prev.clone());
        }
        outs
    }
}

#[derive(Clone, Copy, PartialEq, Eq, Hash, Debug, PartialOrd, Ord)]
pub enum CipherAlg {
    ChaChaPoly,
    AesGcm,
    XChaChaPoly,
}
pub const ALL_CIPHERS: [CipherAlg; 3] = [CipherAlg::ChaChaPoly, CipherAlg::AesGcm, CipherAlg::XChaChaPoly];

fn hchacha20(key: &[u8; 32], nonce16: &[u8; 16]) -> [u8; 32] {
    let mut st = [0u32; 16];
    st[0] = 0x6170_7865;
    st[1] = 0x3320_646e;
    st[2] = 0x7962_2d32;
    st[3] = 0x6b20_6574;
    for i in 0..8 {
        st[4 + i] = u32::from_le_bytes(key[4 * i..4 * i + 4].try_into().unwrap());
    }
    for i in 0..4 {
        st[12 + i] = u32::from_le_bytes(nonce16[4 * i..4 * i + 4].try_into().unwrap());
    }
    fn qr(s: &mut [u32; 16], a: usize, b: usize, c: usize, d: usize) {
        s[a] = s[a].wrapping_add(s[b]);
        s[d] = (s[d] ^ s[a]).rotate_left(16);
        s[c] = s[c].wrapping_add(s[d]);
        s[b] = (s[b] ^ s[c]).rotate_left(12);
        s[a] = s[a].wrapping_add(s[b]);
        s[d] = (s[d] ^ s[a]).rotate_left(8);
        s[c] = s[c].wrapping_add(s[d]);
        s[b] = (s[b] ^ s[c]).rotate_left(7);
    }
    for _ in 0..10 {
        qr(&mut st, 0, 4, 8, 12);
        qr(&mut st, 1, 5, 9, 13);
        qr(&mut st, 2, 6, 10, 14);
        qr(&mut st, 3, 7, 11, 15);
        qr(&mut st, 0, 5, 10, 15);
        qr(&mut st, 1, 6, 11, 12);
        qr(&mut st, 2, 7, 8, 13);
        qr(&mut st, 3, 4, 9, 14);
    }
    let mut out = [0u8; 32];
    for (i, w) in [0usize, 1, 2, 3, 12, 13, 14, 15].iter().enumerate() {
        out[4 * i..4 * i + 4].copy_from_slice(&st[*w].to_le_bytes());
    }
    out
}

pub fn hchacha20_pub(key: &[u8; 32], nonce16: &[u8; 16]) -> [u8; 32] {
    hchacha20(key, nonce16)
}

/// Raw IETF AEAD with a caller-built 96-bit nonce (used by the KATs; the Noise layout is on top).
pub fn aead_raw_seal(aes: bool, key: &[u8; 32], nonce: [u8; 12], ad: &[u8], pt: &[u8]) -> Vec<u8> {
    let alg = if aes { &aead::AES_256_GCM } else { &aead::CHACHA20_POLY1305 };
    let k = aead::LessSafeKey::new(aead::UnboundKey::new(alg, key).unwrap());
    let mut out = pt.to_vec();
    let tag = k
        .seal_in_place_separate_tag(aead::Nonce::assume_unique_for_key(nonce), aead::Aad::from(ad), &mut out)
        .unwrap();
    out.extend_from_slice(tag.as_ref());
    out
}

/// XChaCha20-Poly1305 (draft-irtf-cfrg-xchacha) with a full 192-bit nonce.
pub fn xchacha_raw_seal(key: &[u8; 32], nonce24: &[u8; 24], ad: &[u8], pt: &[u8]) -> Vec<u8> {
    let sub = hchacha20(key, nonce24[..16].try_into().unwrap());
    let mut nonce = [0u8; 12];
    nonce[4..].copy_from_slice(&nonce24[16..]);
    aead_raw_seal(false, &sub, nonce, ad, pt)
}

impl CipherAlg {
    pub fn name(self) -> &'static str {
        match self {
            CipherAlg::ChaChaPoly => "ChaChaPoly",
            CipherAlg::AesGcm => "AESGCM",
            CipherAlg::XChaChaPoly => "XChaChaPoly",
        }
    }
    pub fn from_name(s: &str) -> Option<Self> {
        ALL_CIPHERS.iter().copied().find(|h| h.name() == s)
    }
    /// (ring key, 96-bit nonce) for a Noise (key, 64-bit nonce) pair, built from the spec text:
    /// ChaChaPoly: 4 zero bytes + LE64(n); AESGCM: 4 zero bytes + BE64(n);
    /// XChaChaPoly (snow extension): 24-byte nonce = 16 zero bytes + LE64(n).
    fn ring_key(self, key: &[u8; 32], n: u64) -> (aead::LessSafeKey, [u8; 12]) {
        let mut nonce = [0u8; 12];
        match self {
            CipherAlg::ChaChaPoly => {
                nonce[4..].copy_from_slice(&n.to_le_bytes());
                (aead::LessSafeKey::new(aead::UnboundKey::new(&aead::CHACHA20_POLY1305, key).unwrap()), nonce)
            },
            CipherAlg::AesGcm => {
                nonce[4..].copy_from_slice(&n.to_be_bytes());
                (aead::LessSafeKey::new(aead::UnboundKey::new(&aead::AES_256_GCM, key).unwrap()), nonce)
            },
            CipherAlg::XChaChaPoly => {
                let mut n24 = [0u8; 24];
                n24[16..].copy_from_slice(&n.to_le_bytes());
                let sub = hchacha20(key, n24[..16].try_into().unwrap());
                nonce[4..].copy_from_slice(&n24[16..]);
                (aead::LessSafeKey::new(aead::UnboundKey::new(&aead::CHACHA20_POLY1305, &sub).unwrap()), nonce)
            },
        }
    }
    pub fn encrypt(self, key: &[u8; 32], n: u64, ad: &[u8], pt: &[u8]) -> Vec<u8> {
        let (k, nonce) = self.ring_key(key, n);
        let mut out = pt.to_vec();
        let tag = k
            .seal_in_place_separate_tag(aead::Nonce::assume_unique_for_key(nonce), aead::Aad::from(ad), &mut out)
            .unwrap();
        out.extend_from_slice(tag.as_ref());
        out
    }
    pub fn decrypt(self, key: &[u8; 32], n: u64, ad: &[u8], ct: &[u8]) -> Option<Vec<u8>> {
        if ct.len() < 16 {
            return None;
        }
        let (k, nonce) = self.ring_key(key, n);
        let mut buf = ct.to_vec();
        let pt = k.open_in_place(aead::Nonce::assume_unique_for_key(nonce), aead::Aad::from(ad), &mut buf).ok()?;
        Some(pt.to_vec())
    }
    /// REKEY(k) = first 32 bytes of ENCRYPT(k, 2^64-1, "", zeros[32]) (spec 4.2).
    pub fn rekey(self, key: &[u8; 32]) -> [u8; 32] {
        let ct = self.encrypt(key, u64::MAX, &[], &[0u8; 32]);
        ct[..32].try_into().unwrap()
    }
}

#[derive(Clone, Copy, PartialEq, Eq, Hash, Debug, PartialOrd, Ord)]
pub enum DhAlg {
    X25519,
    P256,
}
pub const ALL_DHS: [DhAlg; 2] = [DhAlg::X25519, DhAlg::P256];

impl DhAlg {
    pub fn name(self) -> &'static str {
        match self {
            DhAlg::X25519 => "25519",
            DhAlg::P256 => "P256",
        }
    }
    pub fn from_name(s: &str) -> Option<Self> {
        ALL_DHS.iter().copied().find(|h| h.name() == s)
    }
    pub fn publen(self) -> usize {
        match self {
            DhAlg::X25519 => 32,
            DhAlg::P256 => 65,
        }
    }
    pub fn privlen(self) -> usize {
        32
    }
    pub fn dhlen(self) -> usize {
        32
    }
    fn alg(self) -> &'static agreement::Algorithm {
        match self {
            DhAlg::X25519 => &agreement::X25519,
            DhAlg::P256 => &agreement::ECDH_P256,
        }
    }
    fn private(self, sk: &[u8]) -> Option<agreement::EphemeralPrivateKey> {
        let rng = ring::test::rand::FixedSliceRandom { bytes: sk };
        agreement::EphemeralPrivateKey::generate(self.alg(), &rng).ok()
    }
    /// Is this a usable private key? (P-256: a scalar in 1..n.)
    pub fn valid_private(self, sk: &[u8]) -> bool {
        sk.len() == 32 && self.private(sk).is_some()
    }
    /// Public key for a 32-byte private key, computed by ring (None: invalid P-256 scalar).
    pub fn pubkey(self, sk: &[u8]) -> Option<Vec<u8>> {
        let p = self.private(sk)?;
        Some(p.compute_public_key().ok()?.as_ref().to_vec())
    }
    /// DH(sk, pk) by ring. `None`: ring rejected the operation (invalid point / scalar; for
    /// X25519 also an all-zero result - see `dh_x25519_lenient`).
    pub fn dh(self, sk: &[u8], pk: &[u8]) -> Option<Vec<u8>> {
        let p = self.private(sk)?;
        let peer = agreement::UnparsedPublicKey::new(self.alg(), pk);
        agreement::agree_ephemeral(p, &peer, |km| km.to_vec()).ok()
    }
    /// Noise's DH never fails for 25519 (an all-zero output is allowed, spec 12.1); ring rejects
    /// the all-zero output, so that case is mapped back to zeros.
    pub fn dh_noise(self, sk: &[u8], pk: &[u8]) -> Option<Vec<u8>> {
        match self {
            DhAlg::X25519 => Some(self.dh(sk, &pk[..32]).unwrap_or_else(|| vec![0u8; 32])),
            DhAlg::P256 => self.dh(sk, pk),
        }
    }
}
