------------------------------- MODULE HsTurn -------------------------------
(* Turn / phase / one-way state machine of one Noise session as the caller of snow's API sees it
   (property C11).  Two parties I and R, a network that keeps every genuine handshake message ever
   written (so that stale, reflected and out-of-order deliveries are all possible), conversion to
   transport mode, and MaxT transport messages per direction that may be delivered in any order.

   The model is crypto-free: a genuine handshake message is identified by its index k.  In a single
   session message k is written by the party whose turn it is at position k, after both parties
   processed messages 0..k-1, so "message k read at position k" is exactly "transcripts agree".

   Every step records in `last` which call was made and what the caller must observe
   (ok / state = the documented state error / rej = any other error).  The conformance runner
   (snowmc C11, part "tla") replays EVERY edge of the state graph TLC dumps against the real
   HandshakeState / TransportState objects and compares the outcome and the turn / finished indicators.
   A refused call leaves all variables but `last` unchanged, so the edges leaving the state after a
   refusal check behaviourally that the refusal had no effect. *)
EXTENDS Naturals, FiniteSets

VARIABLES
    n,        \* number of handshake messages of the pattern (1..4)
    oneway,   \* TRUE for the one-way patterns N, K, X (then n = 1)
    sl,       \* TRUE: conversions go to stateless transport mode (caller supplies the nonce = message number)
    pos,      \* [I, R] -> number of handshake messages processed
    mode,     \* [I, R] -> "hs" | "tr" | "gone" (a failed conversion consumes the object)
    wire,     \* indexes of the genuine handshake messages on the network
    tw,       \* [I, R] -> transport messages written (0..MaxT)
    tr,       \* [I, R] -> transport messages accepted, in order (0..MaxT)
    last      \* <<call, party, arg, outcome>> of the step that led here

MaxT == 2     \* transport messages per direction
vars == <<n, oneway, sl, pos, mode, wire, tw, tr, last>>
P == {"I", "R"}
Peer(p) == IF p = "I" THEN "R" ELSE "I"

\* whose turn it is to write at position k: the initiator writes the even messages
Writer(k) == IF k % 2 = 0 THEN "I" ELSE "R"
Finished(p) == pos[p] = n
MyTurn(p) == Writer(pos[p]) = p          \* what is_my_turn() must say while not finished

Init ==
    /\ n \in 1..4
    /\ oneway \in BOOLEAN
    /\ (oneway <=> n = 1)      \* the one-message patterns are exactly the one-way patterns
    /\ sl \in BOOLEAN
    /\ pos = [p \in P |-> 0]
    /\ mode = [p \in P |-> "hs"]
    /\ wire = {}
    /\ tw = [p \in P |-> 0]
    /\ tr = [p \in P |-> 0]
    /\ last = <<"init", "-", 0, "ok">>

Refuse(call, p, arg, why) ==
    /\ last' = <<call, p, arg, why>>
    /\ UNCHANGED <<n, oneway, sl, pos, mode, wire, tw, tr>>

Write(p) ==
    /\ mode[p] = "hs"
    /\ IF ~Finished(p) /\ MyTurn(p)
       THEN /\ wire' = wire \cup {pos[p]}
            /\ pos' = [pos EXCEPT ![p] = @ + 1]
            /\ last' = <<"write", p, 0, "ok">>
            /\ UNCHANGED <<n, oneway, sl, mode, tw, tr>>
       ELSE Refuse("write", p, 0, "state")

\* deliver the genuine handshake message k (whoever wrote it) to p
Read(p, k) ==
    /\ mode[p] = "hs"
    /\ k \in wire
    /\ IF Finished(p) \/ MyTurn(p)
       THEN Refuse("read", p, k, "state")
       ELSE IF k = pos[p]
            THEN /\ pos' = [pos EXCEPT ![p] = @ + 1]
                 /\ last' = <<"read", p, k, "ok">>
                 /\ UNCHANGED <<n, oneway, sl, mode, wire, tw, tr>>
            ELSE Refuse("read", p, k, "rej")

\* deliver bytes that are too short to be any handshake message
Garbage(p) ==
    /\ mode[p] = "hs"
    /\ IF Finished(p) \/ MyTurn(p)
       THEN Refuse("garbage", p, 0, "state")
       ELSE Refuse("garbage", p, 0, "rej")

Convert(p) ==
    /\ mode[p] = "hs"
    /\ IF Finished(p)
       THEN /\ mode' = [mode EXCEPT ![p] = "tr"]
            /\ last' = <<"convert", p, 0, "ok">>
            /\ UNCHANGED <<n, oneway, sl, pos, wire, tw, tr>>
       ELSE /\ mode' = [mode EXCEPT ![p] = "gone"]
            /\ last' = <<"convert", p, 0, "state">>
            /\ UNCHANGED <<n, oneway, sl, pos, wire, tw, tr>>

TWrite(p) ==
    /\ mode[p] = "tr"
    /\ tw[p] < MaxT
    /\ IF oneway /\ p = "R"
       THEN Refuse("twrite", p, 0, "state")
       ELSE /\ tw' = [tw EXCEPT ![p] = @ + 1]
            /\ last' = <<"twrite", p, 0, "ok">>
            /\ UNCHANGED <<n, oneway, sl, pos, mode, wire, tr>>

\* deliver the peer's j-th transport message to p (stateful transport: accepted only in order)
TRead(p, j) ==
    /\ mode[p] = "tr"
    /\ j < tw[Peer(p)]
    /\ IF oneway /\ p = "I"
       THEN Refuse("tread", p, j, "state")
       ELSE IF sl
            THEN \* stateless: every genuine message is accepted under its own nonce, in any order, any number of times
                 /\ last' = <<"tread", p, j, "ok">>
                 /\ UNCHANGED <<n, oneway, sl, pos, mode, wire, tw, tr>>
       ELSE IF tr[p] = j
            THEN /\ tr' = [tr EXCEPT ![p] = @ + 1]
                 /\ last' = <<"tread", p, j, "ok">>
                 /\ UNCHANGED <<n, oneway, sl, pos, mode, wire, tw>>
            ELSE Refuse("tread", p, j, "rej")

\* deliver bytes that are no transport message at all (too short for an authentication tag)
TGarbage(p) ==
    /\ mode[p] = "tr"
    /\ IF oneway /\ p = "I"
       THEN Refuse("tgarbage", p, 0, "state")
       ELSE Refuse("tgarbage", p, 0, "rej")

Next ==
    \E p \in P :
        \/ Write(p)
        \/ \E k \in 0..3 : Read(p, k)
        \/ Garbage(p)
        \/ Convert(p)
        \/ TWrite(p)
        \/ TGarbage(p)
        \/ \E j \in 0..(MaxT - 1) : TRead(p, j)

Spec == Init /\ [][Next]_vars

-----------------------------------------------------------------------------
TypeOK ==
    /\ n \in 1..4 /\ oneway \in BOOLEAN /\ sl \in BOOLEAN
    /\ pos \in [P -> 0..4] /\ mode \in [P -> {"hs", "tr", "gone"}]
    /\ wire \subseteq 0..3 /\ tw \in [P -> 0..MaxT] /\ tr \in [P -> 0..MaxT]

\* the state machine's own safety claims (checked by TLC on every reachable state)
NeverBothWriters ==      \* never both parties' turn to write
    ~(~Finished("I") /\ ~Finished("R") /\ MyTurn("I") /\ MyTurn("R"))
PositionsClose ==        \* the reader is never ahead of the writer; at most one message in flight
    /\ pos["I"] <= n /\ pos["R"] <= n
    /\ (pos["I"] - pos["R"] \in {0, 1} \/ pos["R"] - pos["I"] \in {0, 1})
WireIsPrefix ==          \* exactly the messages 0..max(pos)-1 were ever written
    \A k \in 0..3 : k \in wire <=> (k < pos["I"] \/ k < pos["R"])
TransportOnlyAfterLast ==
    \A p \in P : mode[p] = "tr" => Finished(p)
OneWayRule ==
    oneway => (tw["R"] = 0 /\ tr["I"] = 0)
AcceptedWasWritten ==
    \A p \in P : tr[p] <= tw[Peer(p)]
=============================================================================
