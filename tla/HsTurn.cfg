INIT Init
NEXT Next
INVARIANT TypeOK
INVARIANT NeverBothWriters
INVARIANT PositionsClose
INVARIANT WireIsPrefix
INVARIANT TransportOnlyAfterLast
INVARIANT OneWayRule
INVARIANT AcceptedWasWritten
CHECK_DEADLOCK FALSE
