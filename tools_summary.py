#!/usr/bin/env python3
"""Regenerate the measured table of DESIGN.md section 10.10 from evidence files.

quick numbers:    /verif/evidence/<id>.json            (must be quick-tier runs)
thorough numbers: /verif/evidence_thorough/<id>.json   (copies saved after a thorough run; see tools_run_all.sh)
The table is written between the markers <!-- MEASURED:BEGIN --> and <!-- MEASURED:END -->.
"""
import json, os, re, sys

ROOT = os.path.dirname(os.path.abspath(__file__))
man = json.load(open(f"{ROOT}/MANIFEST.json"))


def load(d, pid):
    try:
        return json.load(open(f"{ROOT}/{d}/{pid}.json"))
    except Exception:
        return None


def fmt(n):
    if n is None:
        return "-"
    n = int(n)
    if n >= 10_000_000:
        return f"{n/1e6:.0f} M"
    if n >= 1_000_000:
        return f"{n/1e6:.1f} M"
    if n >= 10_000:
        return f"{n/1e3:.0f} k"
    return str(n)


def cell(e):
    if e is None:
        return "- | - | - | -"
    c = e["coverage"]
    return f"{fmt(c['evaluations'])} | {fmt(c['states'])} | {fmt(c['transitions'])} | {e['wall_s']:.0f} s"


rows = []
for chk in man["checks"]:
    pid = chk["property_id"]
    q, t = load("evidence", pid), load("evidence_thorough", pid)
    if q and q.get("tier") != "quick":
        q = None
    ex = ""
    if t and t["coverage"].get("exhaustive"):
        ex = " (complete)"
    rows.append(f"| {pid} | {chk['level_claimed']['category']} | {cell(q)} | {cell(t)}{ex} |")

table = "\n".join(
    [
        "| property | level | quick: cases | states | calls on real code | wall | thorough: cases | states | calls on real code | wall |",
        "|---|---|---|---|---|---|---|---|---|---|",
    ]
    + rows
)
p = f"{ROOT}/DESIGN.md"
s = open(p).read()
new = re.sub(r"<!-- MEASURED:BEGIN -->.*?<!-- MEASURED:END -->", "<!-- MEASURED:BEGIN -->\n" + table + "\n<!-- MEASURED:END -->", s, flags=re.S)
if new == s and "<!-- MEASURED:BEGIN -->" not in s:
    sys.exit("markers not found in DESIGN.md")
open(p, "w").write(new)
print(table)
