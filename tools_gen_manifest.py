#!/usr/bin/env python3
"""Regenerates /verif/MANIFEST.json from the table below (kept in one place so that the
manifest is always valid). Run: python3 tools_gen_manifest.py"""
import json, subprocess

HOOK_COMMITS = ["1a17178"]

# id -> (category, engine, technique, text, note)
CHECKS = {
 "C05": ("model_checking", "E2 seqmc (stateright BFS, implementation in the loop)",
         "explicit-state breadth-first search over delivery schedules (reorder, duplicate, drop, garbage, undersized buffers, set_receiving_nonce) executed on real TransportStates against a nonce/provenance model",
         "All call sequences up to the depth/deviation bound on 15 cipher x backend x direction x pattern instances: a delivery is accepted iff it is the unaltered message whose number equals the receiving nonce; rejections leave nonces untouched and the right next message is still accepted (explored below every state); merged and unmerged enumeration cross-checked.",
         "Bounded: 4 sender messages, depth 6/8, 3/4 deviations; acceptance oracle is the abstract provenance model; payload bytes from a fixed pattern."),
 "C06": ("model_checking", "E1 fault product + E2 seqmc with RecordingCipher / ScriptedRng seams",
         "exhaustive fault-point enumeration and explicit-state BFS over call sequences, invariant evaluated on the merged Cipher::encrypt log and RNG log of both endpoints",
         "For every handshake name (556) every single failing call (and pairs on base patterns) along the honest run, plus BFS over scattered failures, conversion, transport and rekeys: no (key, nonce) maps to two different (ad, plaintext); every `e` is the public key of bytes drawn during that very write.",
         "Observer sits in the resolver (Builder::with_resolver); ScriptedRng mode only; caller-chosen nonces/keys (stateless mode, manual rekey to equal keys, the sending-nonce hook) are outside the alphabet."),
 "C07": ("fault_enumeration", "E1 fault product (differential) + E2 seqmc",
         "exhaustive enumeration of failure points and causes along the honest run (deviation bound 1, 2 on base patterns) with a differential oracle against the run without the failing calls; explicit-state BFS for scattered failures",
         "Every failure cause the API can take (undersized buffers at every token boundary / every length in thorough, over-long payloads, out-of-turn calls, late PSKs, every bit-flip position (stride 8 quick), truncations, extensions, substitutions, transport failures) at every message of every handshake name: the continuation must be byte-identical to the clean run, every other step Ok, no public getter may change across the failed call.",
         "Fixed ephemerals make runs pure functions of the call sequence; alterations the receiver accepts are not failed calls (C03's business)."),
 "C09": ("model_checking", "E2 seqmc + verif-hooks nonce accessor + RecordingCipher",
         "explicit-state BFS over transport call sequences with nonces placed at 0 and 2^64-3..2^64-1, compared with two u64 counters per endpoint; cipher log inspected for the reserved nonce",
         "All sequences (depth 4/6) of writes/reads (valid, undersized, oversize, garbage), explicit nonce settings, rekeys, stateless calls at boundary nonces, on 20 cipher x backend x pattern x mode instances: counters move by exactly one on Ok and never otherwise, 2^64-1 yields Exhausted, writes nothing, never reaches Cipher::encrypt/decrypt.",
         "Nonce values from a boundary alphabet; the stateful sender is positioned with the add-only hook verif_set_sending_nonce."),
 "C11": ("model_checking", "E2 seqmc",
         "explicit-state BFS over API call sequences on both endpoints for all 38 patterns and a psk variant of each, against a {role, position, phase} model",
         "Every sequence of valid/invalid writes, genuine/stale/garbage reads, both conversions and transport calls up to depth 2n+2+3 (thorough +5) with at most 2 (3) out-of-phase calls: result variants are the documented state errors, failed calls change nothing, is_my_turn/is_handshake_finished/is_initiator always equal the model's values.",
         "One primitive suite (the state machine does not depend on primitives); where two state errors apply either is accepted."),
 "C15": ("model_checking", "E2 seqmc + reference AEAD",
         "explicit-state BFS over write/read/rekey sequences on real transport states against a key-term model; bytes compared with REKEY computed by an independent AEAD",
         "All sequences (depth 4/6) of write, read, rekey_outgoing/incoming and the three manual rekeys on both endpoints, stateful and stateless, 3 ciphers x 2 backends x interactive/one-way: reads succeed iff sender and receiver key terms agree, bytes equal reference ENCRYPT(key(term), n), nonces untouched by rekeys.",
         "Transport reference is keyed with the keys the implementation installed at Split() (seen by the RecordingCipher) so that the verdict is independent of handshake conformance (C01)."),
 "C01": ("model_checking", "E1 product + refnoise",
         "exhaustive enumeration of all 13 344 protocol names x deviation-bounded input variations; every step of the real session executed in lock step with an independent reference model bound to third-party vectors",
         "Every handshake/transport message, handshake hash and payload-encrypted flag snow produces for every supported protocol name (both roles, fixed and scripted-RNG ephemerals, stateful/stateless, after a failed call) is compared byte for byte with refnoise; complete over names, bounded (alphabets) over key/prologue/payload values and lengths.",
         "refnoise (own code) is trusted as the specification after reproducing 472 cacophony vectors and the standard KATs at the start of every run; BLAKE2 shares snow's implementation; Curve448 not covered; byte values outside the alphabets not explored."),
}

NOT_YET = "check not built yet in this round (planned in DESIGN.md section 4/5)"

def main():
    props = [json.loads(l) for l in open('/verif/properties.jsonl')]
    checks = []
    na = []
    for p in props:
        pid = p['id']
        if pid in CHECKS:
            cat, engine, tech, text, note = CHECKS[pid]
            checks.append({
                "property_id": pid,
                "quick_cmd": f"./check {pid} --tier quick",
                "thorough_cmd": f"./check {pid} --tier thorough",
                "evidence_file": f"/verif/evidence/{pid}.json",
                "replay_cmd_template": f"./check {pid} --replay {{path}}",
                "engine": engine,
                "level_claimed": {"category": cat, "text": text, "design_ref": f"DESIGN.md section {'4' if int(pid[1:])<=10 else '5'}, {pid}"},
                "level_note": note,
                "technique": tech,
            })
        else:
            na.append({"property_id": pid, "reason": NOT_YET})
    m = {
        "version": 1,
        "setup_cmd": "cd /verif/harness && CARGO_NET_OFFLINE=true cargo build --release --offline -p snowmc",
        "hooks": {
            "guard": "cargo feature `verif-hooks` of snow (off by default)",
            "enable": "the harness crate depends on snow with features = [\"verif-hooks\"] (path dependency on /repo); nothing else sets it",
            "baseline_off_cmd": "cd /repo && cargo test --workspace --no-fail-fast --offline",
            "source_commits": HOOK_COMMITS,
            "add_only": True,
        },
        "engines": [
            {"name": "E1 product", "path": "harness/snowmc/src/props", "serves_properties": sorted(CHECKS.keys()), "kind_free_text": "exhaustive cartesian enumeration of configurations / inputs / fault points on a rayon pool, each case executed on the real code and judged by an oracle"},
            {"name": "executor", "path": "harness/snowmc/src/exec.rs", "serves_properties": sorted(CHECKS.keys()), "kind_free_text": "runs op sequences on real snow objects and on an abstract + crypto reference model in lock step"},
            {"name": "refnoise", "path": "harness/refnoise", "serves_properties": sorted(CHECKS.keys()), "kind_free_text": "reference model of Noise rev 34 bound to cacophony vectors and KATs"},
        ],
        "checks": checks,
        "not_applicable": na,
        "notes": "All checks decide by bounded exhaustive exploration of the real code (model checking family). See DESIGN.md.",
    }
    json.dump(m, open('/verif/MANIFEST.json', 'w'), indent=1)
    try:
        import jsonschema
        jsonschema.validate(m, json.load(open('/root/.vp/MANIFEST.schema.json')))
        print("MANIFEST.json valid;", len(checks), "checks,", len(na), "not_applicable")
    except ImportError:
        print("written (jsonschema not importable here)")

main()
