#!/usr/bin/env python3
"""Regenerates /verif/MANIFEST.json from the table below (kept in one place so that the
manifest is always valid). Run: python3 tools_gen_manifest.py"""
import json, subprocess

HOOK_COMMITS = ["1a17178", "065bd4b", "64a12d1"]

# id -> (category, engine, technique, text, note)
CHECKS = {
 "C05": ("model_checking", "E2 seqmc (stateright BFS, implementation in the loop)",
         "explicit-state breadth-first search over delivery schedules (reorder, duplicate, drop, garbage, undersized buffers, set_receiving_nonce) executed on real TransportStates against a nonce/provenance model",
         "All call sequences up to the depth/deviation bound on 15 cipher x backend x direction x pattern instances: a delivery is accepted iff it is the unaltered message whose number equals the receiving nonce; rejections leave nonces untouched and the right next message is still accepted (explored below every state); merged and unmerged enumeration cross-checked.",
         "Bounded: 4 sender messages, depth 6/8, 3/4 deviations; acceptance oracle is the abstract provenance model; payload bytes from a fixed pattern."),
 "C06": ("model_checking", "E1 fault product + E2 seqmc with RecordingCipher / ScriptedRng seams",
         "exhaustive fault-point enumeration and explicit-state BFS over call sequences, invariant evaluated on the merged Cipher::encrypt log and RNG log of both endpoints",
         "For every handshake name (556) every single failing call (and pairs on base patterns) along the honest run, plus BFS over scattered failures, conversion, transport and rekeys: no (key, nonce) maps to two different (ad, plaintext); every `e` is the public key of bytes drawn during that very write; with the built-in random sources (default, ring over default) no two ephemerals coincide across sessions, roles, names and backends.",
         "Observer sits in the resolver (Builder::with_resolver); ScriptedRng mode only; caller-chosen nonces/keys (stateless mode, manual rekey to equal keys, the sending-nonce hook) are outside the alphabet."),
 "C07": ("fault_enumeration", "E1 fault product (differential) + E2 seqmc",
         "exhaustive enumeration of failure points and causes along the honest run (deviation bound 1, 2 on base patterns) with a differential oracle against the run without the failing calls; explicit-state BFS for scattered failures",
         "Every failure cause the API can take (undersized buffers at every token boundary / every length in thorough, over-long payloads, out-of-turn calls, late PSKs, every bit-flip position (stride 8 quick), truncations, extensions, substitutions, transport failures including calls refused at an exhausted counter) at every message of every handshake name: the continuation must be byte-identical to the clean run, every other step Ok, no public getter may change across the failed call.",
         "Fixed ephemerals make runs pure functions of the call sequence; alterations the receiver accepts are not failed calls (C03's business)."),
 "C09": ("model_checking", "E2 seqmc + verif-hooks nonce accessor + RecordingCipher",
         "explicit-state BFS over transport call sequences with nonces placed at 0 and 2^64-3..2^64-1, compared with two u64 counters per endpoint; cipher log inspected for the reserved nonce",
         "All sequences (depth 4/6) of writes/reads (valid, undersized, oversize, garbage), explicit nonce settings, rekeys, stateless calls at boundary nonces, on 20 cipher x backend x pattern x mode instances: counters move by exactly one on Ok and never otherwise, 2^64-1 yields Exhausted, writes nothing, never reaches Cipher::encrypt/decrypt.",
         "Nonce values from a boundary alphabet; the stateful sender is positioned with the add-only hook verif_set_sending_nonce."),
 "C11": ("model_checking", "E2 seqmc + TLA+ model (TLC) with edge-by-edge conformance replay",
         "explicit-state BFS over API call sequences on both endpoints for all 38 patterns and a psk variant of each, against a {role, position, phase} model; in addition the TLA+ model tla/HsTurn.tla is checked by TLC (all reachable states, 7 invariants) and every edge of the state graph TLC dumps is replayed on real snow objects (shortest model path to the edge's source + the edge's call) for every name of matching shape, stateful and stateless",
         "Every sequence of valid/invalid writes, genuine/stale/garbage reads, both conversions and transport calls up to depth 2n+2+3 (thorough +5) with at most 2 (3) out-of-phase calls: result variants are the documented state errors, failed calls change nothing, is_my_turn/is_handshake_finished/is_initiator always equal the model's values. An out-of-phase write gets the state error whatever its buffer sizes. TLA+ part: 2105 model states / 13 339 edges, 276 062 model paths replayed in the quick tier.",
         "One primitive suite (the state machine does not depend on primitives); where two state errors apply either is accepted; reads of messages over 65535 bytes are refused as input errors before the state is looked at (documented by snow) and are not judged here."),
 "C15": ("model_checking", "E2 seqmc + reference AEAD",
         "explicit-state BFS over write/read/rekey sequences on real transport states against a key-term model; bytes compared with REKEY computed by an independent AEAD",
         "All sequences (depth 4/6) of write, read, rekey_outgoing/incoming and the three manual rekeys on both endpoints, stateful and stateless, 3 ciphers x 2 backends x interactive/one-way: reads succeed iff sender and receiver key terms agree, bytes equal reference ENCRYPT(key(term), n), nonces untouched by rekeys.",
         "Transport reference is keyed with the keys the implementation installed at Split() (seen by the RecordingCipher) so that the verdict is independent of handshake conformance (C01)."),
 "C02": ("model_checking", "E1 product (executor, abstract model)",
         "exhaustive enumeration of all 13 344 protocol names (keys from the library's own generate_keypair under scripted RNG streams, scripted-RNG ephemerals) plus bounded products of payload lengths, transport modes and every direction string of length <= 5",
         "Every honest session completes after exactly #messages messages on both sides, every handshake and transport payload is returned intact, both sides report the same handshake hash and every ephemeral is drawn during its write - for every name, 4 transport modes, payload lengths 0..max per message index (covering subset), all 62 direction strings; PSKs supplied only through set_psk, or replaced through it.",
         "OS randomness is a seam answer and is not enumerated (one labelled sample run per base pattern); hfs/Kyber names only in the hfs build; Curve448 has no resolver."),
 "C03": ("fault_enumeration", "E1 fault product (executor + reference field map)",
         "exhaustive enumeration of single alterations (every bit / one bit per byte, every truncation, extensions - also read into a buffer that fits the genuine payload exactly -, substitutions, a P-256 key sent in the clear replaced by its negated point) of every handshake message, then pairs; oracle from the reference field map",
         "For every handshake name and message: no alteration lets both parties finish without an error, and an alteration that touches a field the reference field map marks encrypted (or changes the length of an encrypted tail) is rejected by the receiving read itself; also after an earlier altered copy was rejected, and with two altered messages.",
         "A complete first message of a parallel session is a valid message (Noise has no replay protection for it): exempt from clause (b), and from (a) for one-way patterns; random multi-byte edits are replaced by the exhaustive single-bit/truncation/substitution alphabets."),
 "C04": ("fault_enumeration", "E1 product (executor, provenance model)",
         "exhaustive enumeration of deliveries to transport reads: every single-bit flip, every truncation, extensions (roomy buffer, a buffer that fits the genuine payload exactly, one byte short of the extended message's), constants, reflection, cross-session and handshake messages, and all ordered pairs of an 80-value nonce alphabet in stateless mode",
         "A transport read returns Ok iff the delivered bytes are the unaltered message the peer wrote for this session, direction, key and nonce (then exactly the payload); 2 million deliveries over 38 patterns + psk variants x 3 ciphers x 2 backends x both modes in the quick tier. When /repo/src contains a synchronisation primitive, concurrent reads are also explored on the shuttle-mapped copy (every interleaving at those primitives).",
         "Acceptance oracle is the crypto-free provenance model; random 64-bit nonces replaced by boundary + all single-bit values."),
 "C08": ("model_checking", "E1 product (executor as driver)",
         "exhaustive enumeration of single context differences between the two peers (name string, another spelling of the same modifiers parsed by one side - other order, leading zero -, hash/cipher component, every prologue bit/length, every psk bit, a psk replaced through set_psk after building, pre-shared static keys incl. related keys) for every name (quick: covering subset), the same differences in sessions whose every handshake step is first attempted wrongly and then repeated, pairs in thorough",
         "Peers that differ in the protocol name, prologue, any PSK or any pre-shared static key never both complete the handshake without an error and never accept each other's transport messages; the equal configuration is run as a control.",
         "Names differing only by trailing NULs from a name shorter than HASHLEN are indistinguishable by the specification's padding and excluded."),
 "C10": ("fault_enumeration", "E1 sweep with catch_unwind at the call boundary + watchdog",
         "exhaustive enumeration of calls x states x buffer lengths around every computed field boundary x message shapes, each inside catch_unwind; hang watchdog",
         "2.2 million public calls (parse, builder with key lengths 0..=200 x every subset of the other keys, every handshake state x write/read/set_psk/conversion/getters x boundary buffer lengths x message shapes up to 66000 bytes, both transport modes at boundary nonces) return Ok or Err; none panics or hangs.",
         "Two open known findings (P-256 scalar 0 or >= n panics in derive_pubkey via Dh::set / Dh::generate) are listed in known_findings.json; allocation-failure aborts cannot occur at the sizes used."),
 "C12": ("model_checking", "E1 complete product",
         "complete enumeration of the finite builder configuration space (patterns x roles x key subsets x psk modifiers x supplied psk subsets x 7 resolvers x 3 DH names) against requirements derived from the spec pattern text, then the honest handshake of every buildable pair",
         "build_* succeeds iff the role's required keys are supplied, every modifier is implemented and fits, and the resolver is complete, with the matching error kind otherwise; no successfully built pair fails later for missing key material; an omitted PSK yields MissingPsk exactly at the message that needs it, an all-zero substitute never completes, set_psk then completes - also after refused set_psk calls for that slot (wrong key length, location past the last slot), which supply nothing.",
         "Requirements come from refnoise's parse of the specification's arrow notation, not from snow's tables; keys have the DH's key length."),
 "C13": ("model_checking", "E1 product against a reference recogniser",
         "exhaustive enumeration of strings (full valid product with modifier lists of length <= 3 in every order, all single-edit mutations of 600 names, all strings of length <= 6 over a 10-letter alphabet in the handshake field, structure variations) parsed by snow and by a reference recogniser",
         "3 million strings: parsing succeeds iff the reference grammar recognises the string; accepted values name exactly the components and preserve the string verbatim; rejections are Error::Pattern.",
         "Declared don't-care set: psk numbers with leading zeros. hfs names only in the hfs build (./check C13@hfs)."),
 "C14": ("model_checking", "E1 product (executor + reference field map, canary buffers)",
         "exhaustive enumeration of payload lengths near both limits x buffer lengths around the predicted length for every message of every handshake name, every truncation length on reads, transport likewise",
         "A successful write returns exactly the predicted length, never more than 65535 nor than the buffer; a write that cannot fit fails with Error::Input; reads of >65535 bytes (garbage, and authentic messages sealed with the reference AEAD under the session key) or fewer than the fixed fields fail; a successful read returns length minus overhead whatever spare room the buffer has, on both backends.",
         "Success with an exactly fitting buffer is not demanded (snow's 16 spare bytes rule for clear payloads is accepted either way)."),
 "C16": ("model_checking", "E1 (executor) + E3 shuttle::check_dfs at cipher-call seams, and on a shuttle-mapped copy of /repo/src when snow contains sync primitives; + labelled free-running sample",
         "exhaustive enumeration of call orders/repetitions and of every interleaving (shuttle depth-first search, no sampling) of the pre-cipher/cipher/post-cipher segments of concurrent stateless calls on a shared state; differential against the stateful sender",
         "Stateless round trips for an 80-nonce alphabet x 4 sizes, all 120 orders x 3 repetitions of five calls, all 24 orders of four different-length messages x tight/roomy/alternating output buffers, equality with the stateful sender for n in 0..=8, 8 large nonces (via the nonce hook) and the 65519-byte payload; 2x2 and 3x1 thread mixes (923 / 25 424 / 2 274 schedules each) all return what the sequential function returns.",
         "On the pinned tree snow has no lock/atomic/cell (scanned on every run): preemptions inside a segment are covered by the type system. When /repo/src mentions any sync primitive the exploration is repeated on a copy whose std/core sync primitives are mapped to shuttle's (every atomic/lock op a scheduling point). The free-running real-thread run is a sample and labelled so."),
 "C17": ("model_checking", "E1 product (executor, pattern-derived model)",
         "exhaustive enumeration of handshake names x DH x supplied-key variants x ephemerals {fixed at build, drawn by the write that needs them} x transport modes, getter compared at every point of the session including around failing calls",
         "get_remote_static equals the model at every point: absent before the pattern conveys the key, exactly the peer's full public key (32 / 65 bytes) afterwards, identical across HandshakeState, TransportState and StatelessTransportState, unaffected by failing calls.",
         "The peer's true key is computed by ring from its private key; a key supplied although the pattern transmits it is shown until the transmitted one has been read."),
 "C18": ("model_checking", "E1 product over the resolver objects vs independent implementations",
         "exhaustive enumeration of lengths (HMAC keys 0..=block x data 0..=3 blocks+1, hash lengths, ad/plaintext grids) and structured key/nonce/scalar/point alphabets, each output compared with ring / hmac / hkdf / hand-written HChaCha20",
         "440 000 primitive calls on DefaultResolver and RingResolver objects: hashes, HMAC, HKDF, AEAD (incl. round trip, rejection of every bit flip / truncation / wrong nonce, ad, key; rekey), X25519 and P-256 (incl. low-order, non-canonical, twist and invalid points; generated key pairs) equal their standards; the random sources of DefaultResolver / RingResolver really fill every buffer length through fill_bytes and try_fill_bytes, and key pairs generated from them are consistent and distinct.",
         "Value spaces are closed by alphabets; BLAKE2 digests have no second implementation offline (KATs + cacophony)."),
 "C19": ("fault_enumeration", "E1 product (executor with retained error buffers)",
         "exhaustive enumeration of tag/body bit positions x output buffer sizes x read paths x ciphers x backends; canary-filled buffers searched for plaintext windows after Err",
         "After a rejected handshake-payload, stateful, stateless or direct Cipher::decrypt read, the caller's buffer contains no 8-byte window of the rejected message's plaintext, for every tag bit, body bits, wrong nonce/ad and 5 buffer sizes; for handshake messages with an encrypted static key before the payload (7 pattern/message pairs x 25519/P256 x 12 buffer sizes) neither the payload nor the decrypted key.",
         "Plaintexts shorter than 4 bytes are not judged (chance matches)."),
 "C20": ("model_checking", "E1 complete (differential across backend assignments) + fallback truth table",
         "complete enumeration of the 9 backend assignments for every name both backends serve (and fallback-only names), differential against the all-default session; complete truth table of FallbackResolver over tagged stub resolvers with nesting",
         "All assignments of {Default, Ring+Default, Default+Ring} produce byte-identical sessions (handshake, transport, after synchronised rekeys), interoperate, and every read returns what it returns in the all-default session (also with exactly sized and in-between output buffers); FallbackResolver yields a primitive iff a member provides it and always the first member's.",
         "Inputs as in C01's default vector."),
 "C01": ("model_checking", "E1 product + refnoise",
         "exhaustive enumeration of all 13 344 protocol names x deviation-bounded input variations; every step of the real session executed in lock step with an independent reference model bound to third-party vectors",
         "Every handshake/transport message, handshake hash and payload-encrypted flag snow produces for every supported protocol name (both roles, fixed and scripted-RNG ephemerals, stateful/stateless, after a failed call, names that spell their psk modifiers in another order, rekeys, out-of-order delivery through set_receiving_nonce) is compared byte for byte with refnoise; an explicit-state BFS per base pattern covers unusual call orders; complete over names, bounded (alphabets) over key/prologue/payload values and lengths.",
         "refnoise (own code) is trusted as the specification after reproducing 472 cacophony vectors and the standard KATs at the start of every run; BLAKE2 shares snow's implementation; Curve448 not covered; byte values outside the alphabets not explored."),
}

NOT_YET = "check not built yet in this round (planned in DESIGN.md section 4/5)"

def main():
    props = [json.loads(l) for l in open('/verif/properties.jsonl')]
    checks = []
    na = []
    for p in props:
        pid = p['id']
        if pid in CHECKS:
            cat, engine, tech, text, note = CHECKS[pid]
            checks.append({
                "property_id": pid,
                "quick_cmd": f"./check {pid} --tier quick",
                "thorough_cmd": f"./check {pid} --tier thorough",
                "evidence_file": f"/verif/evidence/{pid}.json",
                "replay_cmd_template": f"./check {pid} --replay {{path}}",
                "engine": engine,
                "level_claimed": {"category": cat, "text": text, "design_ref": f"DESIGN.md section {'4' if int(pid[1:])<=10 else '5'}, {pid}"},
                "level_note": note,
                "technique": tech,
            })
        else:
            na.append({"property_id": pid, "reason": NOT_YET})
    m = {
        "version": 1,
        "setup_cmd": "cd /verif/harness && CARGO_NET_OFFLINE=true cargo build --release --offline -p snowmc && CARGO_TARGET_DIR=target/hfs CARGO_NET_OFFLINE=true cargo build --release --offline -p snowmc --features hfs && cd /verif/harness-c16x && ./gen.sh && CARGO_NET_OFFLINE=true cargo build --release --offline",
        "hooks": {
            "guard": "cargo feature `verif-hooks` of snow (off by default)",
            "enable": "the harness crate depends on snow with features = [\"verif-hooks\"] (path dependency on /repo); nothing else sets it",
            "baseline_off_cmd": "cd /repo && cargo test --workspace --no-fail-fast --offline",
            "source_commits": HOOK_COMMITS,
            "add_only": True,
        },
        "engines": [
            {"name": "E1 product", "path": "harness/snowmc/src/props", "serves_properties": sorted(CHECKS.keys()), "kind_free_text": "exhaustive cartesian enumeration of configurations / inputs / fault points on a rayon pool, each case executed on the real code and judged by an oracle"},
            {"name": "executor", "path": "harness/snowmc/src/exec.rs", "serves_properties": sorted(CHECKS.keys()), "kind_free_text": "runs op sequences on real snow objects and on an abstract + crypto reference model in lock step"},
            {"name": "E2 seqmc", "path": "harness/snowmc/src/engine/seqmc.rs", "serves_properties": ["C05", "C06", "C07", "C09", "C11", "C15"], "kind_free_text": "stateright explicit-state BFS over API call sequences; every transition re-executes the history on fresh real snow objects and on the reference model in lock step; states merged on model + private-state fingerprint + cipher keys"},
            {"name": "E3 sched", "path": "harness/snowmc/src/props/c16.rs", "serves_properties": ["C16"], "kind_free_text": "shuttle::check_dfs controlled-scheduler exploration of threads sharing one StatelessTransportState, scheduling points at cipher-call seams"},
            {"name": "c16x", "path": "harness-c16x", "serves_properties": ["C04", "C16"], "kind_free_text": "copy of /repo/src with std/core/alloc sync primitives mapped to shuttle's, rebuilt and explored with shuttle::check_dfs when snow contains any synchronisation primitive"},
            {"name": "tla", "path": "tla/HsTurn.tla", "serves_properties": ["C11"], "kind_free_text": "TLA+ model of the turn/phase/one-way machine checked by TLC; the dumped state graph is replayed edge by edge against the implementation (harness/snowmc/src/props/c11_tla.rs)"},
            {"name": "refnoise", "path": "harness/refnoise", "serves_properties": sorted(CHECKS.keys()), "kind_free_text": "reference model of Noise rev 34 bound to cacophony vectors and KATs"},
        ],
        "checks": checks,
        "not_applicable": na,
        "notes": "All checks decide by bounded exhaustive exploration of the real code (model checking family). See DESIGN.md.",
    }
    json.dump(m, open('/verif/MANIFEST.json', 'w'), indent=1)
    try:
        import jsonschema
        jsonschema.validate(m, json.load(open('/root/.vp/MANIFEST.schema.json')))
        print("MANIFEST.json valid;", len(checks), "checks,", len(na), "not_applicable")
    except ImportError:
        print("written (jsonschema not importable here)")

main()
