#!/usr/bin/env python3
"""Regenerates /verif/MANIFEST.json from the table below (kept in one place so that the
manifest is always valid). Run: python3 tools_gen_manifest.py"""
import json, subprocess

HOOK_COMMITS = ["1a17178"]

# id -> (category, engine, technique, text, note)
CHECKS = {
 "C01": ("model_checking", "E1 product + refnoise",
         "exhaustive enumeration of all 13 344 protocol names x deviation-bounded input variations; every step of the real session executed in lock step with an independent reference model bound to third-party vectors",
         "Every handshake/transport message, handshake hash and payload-encrypted flag snow produces for every supported protocol name (both roles, fixed and scripted-RNG ephemerals, stateful/stateless, after a failed call) is compared byte for byte with refnoise; complete over names, bounded (alphabets) over key/prologue/payload values and lengths.",
         "refnoise (own code) is trusted as the specification after reproducing 472 cacophony vectors and the standard KATs at the start of every run; BLAKE2 shares snow's implementation; Curve448 not covered; byte values outside the alphabets not explored."),
}

NOT_YET = "check not built yet in this round (planned in DESIGN.md section 4/5)"

def main():
    props = [json.loads(l) for l in open('/verif/properties.jsonl')]
    checks = []
    na = []
    for p in props:
        pid = p['id']
        if pid in CHECKS:
            cat, engine, tech, text, note = CHECKS[pid]
            checks.append({
                "property_id": pid,
                "quick_cmd": f"./check {pid} --tier quick",
                "thorough_cmd": f"./check {pid} --tier thorough",
                "evidence_file": f"/verif/evidence/{pid}.json",
                "replay_cmd_template": f"./check {pid} --replay {{path}}",
                "engine": engine,
                "level_claimed": {"category": cat, "text": text, "design_ref": f"DESIGN.md section {'4' if int(pid[1:])<=10 else '5'}, {pid}"},
                "level_note": note,
                "technique": tech,
            })
        else:
            na.append({"property_id": pid, "reason": NOT_YET})
    m = {
        "version": 1,
        "setup_cmd": "cd /verif/harness && CARGO_NET_OFFLINE=true cargo build --release --offline -p snowmc",
        "hooks": {
            "guard": "cargo feature `verif-hooks` of snow (off by default)",
            "enable": "the harness crate depends on snow with features = [\"verif-hooks\"] (path dependency on /repo); nothing else sets it",
            "baseline_off_cmd": "cd /repo && cargo test --workspace --no-fail-fast --offline",
            "source_commits": HOOK_COMMITS,
            "add_only": True,
        },
        "engines": [
            {"name": "E1 product", "path": "harness/snowmc/src/props", "serves_properties": sorted(CHECKS.keys()), "kind_free_text": "exhaustive cartesian enumeration of configurations / inputs / fault points on a rayon pool, each case executed on the real code and judged by an oracle"},
            {"name": "executor", "path": "harness/snowmc/src/exec.rs", "serves_properties": sorted(CHECKS.keys()), "kind_free_text": "runs op sequences on real snow objects and on an abstract + crypto reference model in lock step"},
            {"name": "refnoise", "path": "harness/refnoise", "serves_properties": sorted(CHECKS.keys()), "kind_free_text": "reference model of Noise rev 34 bound to cacophony vectors and KATs"},
        ],
        "checks": checks,
        "not_applicable": na,
        "notes": "All checks decide by bounded exhaustive exploration of the real code (model checking family). See DESIGN.md.",
    }
    json.dump(m, open('/verif/MANIFEST.json', 'w'), indent=1)
    try:
        import jsonschema
        jsonschema.validate(m, json.load(open('/root/.vp/MANIFEST.schema.json')))
        print("MANIFEST.json valid;", len(checks), "checks,", len(na), "not_applicable")
    except ImportError:
        print("written (jsonschema not importable here)")

main()
