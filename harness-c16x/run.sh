#!/bin/bash
# ./run.sh [quick|thorough]: generate, build (offline), explore; prints one JSON line on stdout.
cd "$(dirname "$0")" || exit 2
export CARGO_NET_OFFLINE=true
# one generation / build at a time (C04 and C16 both use this harness)
exec 8>.run.lock
flock 8
./gen.sh >gen.log 2>&1 || { echo '{"error":"generation failed"}'; exit 2; }
cargo build --release --offline -q 2>build.log || { echo '{"error":"build of the shuttle-mapped copy failed (a primitive shuttle does not model?)"}'; exit 2; }
flock -u 8
exec target/release/c16x "${1:-quick}"
