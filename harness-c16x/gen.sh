#!/bin/bash
# Regenerates snow-src/ from /repo's working tree: same sources, except that every std / core / alloc
# synchronisation primitive is mapped to shuttle's (API compatible), so that atomics, locks or thread
# primitives *inside* snow become scheduling points of the exhaustive exploration.
set -e
cd "$(dirname "$0")"
rm -rf snow-src.new && mkdir -p snow-src.new
cp /repo/Cargo.toml /repo/build.rs snow-src.new/
cp -r /repo/src snow-src.new/src
cp /repo/README.md snow-src.new/ 2>/dev/null || true
find snow-src.new/src -name '*.rs' -print0 | xargs -0 sed -i -E \
  -e 's/\b(core|std)::sync::atomic\b/shuttle::sync::atomic/g' \
  -e 's/\bstd::sync::/shuttle::sync::/g' \
  -e 's/\balloc::sync::/shuttle::sync::/g' \
  -e 's/\bstd::thread\b/shuttle::thread/g' \
  -e 's/\bstd::thread_local!/shuttle::thread_local!/g'
# the dependency table gets shuttle (path-independent: resolved from the offline registry)
sed -i 's/^\[dependencies\]$/[dependencies]\nshuttle = "0.9"/' snow-src.new/Cargo.toml
# benches/examples are not copied
sed -i '/^\[\[bench\]\]/,/^$/d' snow-src.new/Cargo.toml
# only replace the directory when something changed (keeps cargo's fingerprints => no rebuild)
if [ -d snow-src ] && diff -qr snow-src.new snow-src >/dev/null 2>&1; then rm -rf snow-src.new; else rm -rf snow-src; mv snow-src.new snow-src; fi
