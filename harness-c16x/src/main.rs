//! Explores small concurrent mixes on a StatelessTransportState built from the shuttle-mapped
//! copy of snow: every atomic / lock operation inside snow is a scheduling point.
#[path = "../../harness/shared/c16_conc.rs"]
mod conc;
use conc::{explore_mix, Call};

fn main() {
    std::panic::set_hook(Box::new(|_| {}));
    let tier = std::env::args().nth(1).unwrap_or_else(|| "quick".into());
    let w = |init, nonce, plen| Call::Write { init, nonce, plen };
    let r = |init, nonce, plen| Call::Read { init, nonce, plen };
    // 2 threads x 1 call (atomics inside snow multiply the scheduling points; 2x2 stays for the main check)
    let mixes: Vec<(&str, Vec<Vec<Call>>)> = vec![
        ("2x1 write/write different nonces", vec![vec![w(true, 1, 5)], vec![w(true, 1 << 40, 7)]]),
        ("2x1 write/write same nonce", vec![vec![w(true, 7, 5)], vec![w(true, 7, 5)]]),
        ("2x1 write/read same object", vec![vec![w(true, 1, 5)], vec![r(true, 2, 6)]]),
        ("2x1 read/read different nonces", vec![vec![r(false, 1, 5)], vec![r(false, 2, 9)]]),
        ("2x1 read/read into exactly payload-sized buffers", vec![vec![Call::ReadTight { init: false, nonce: 1, plen: 5 }], vec![Call::ReadTight { init: false, nonce: 2, plen: 9 }]]),
        ("2x1 tight read/rejected tight read", vec![vec![Call::ReadTight { init: false, nonce: 1, plen: 5 }], vec![Call::ReadTight { init: false, nonce: u64::MAX, plen: 9 }]]),
        ("2x1 read/rejected read", vec![vec![r(false, 1, 5)], vec![r(false, 3, 5), r(false, u64::MAX, 5)]]),
    ];
    let ciphers: Vec<(&'static str, bool)> = if tier == "thorough" { vec![("ChaChaPoly", false), ("AESGCM", false), ("XChaChaPoly", false), ("ChaChaPoly", true), ("AESGCM", true)] } else { vec![("ChaChaPoly", false), ("AESGCM", true)] };
    let mut total = 0u64;
    let mut viol: Vec<String> = vec![];
    let mut per_mix = vec![];
    for (c, ring) in ciphers {
        for (label, th) in &mixes {
            let res = std::panic::catch_unwind(std::panic::AssertUnwindSafe(|| explore_mix(c, ring, th.clone())));
            match res {
                Ok((n, v)) => {
                    total += n;
                    per_mix.push(serde_json::json!({"cipher": c, "ring": ring, "mix": label, "schedules": n, "divergent": v.len()}));
                    for d in v {
                        viol.push(format!("{c} ring={ring} [{label}]: {d}"));
                    }
                },
                Err(_) => viol.push(format!("{c} ring={ring} [{label}]: panicked or deadlocked under the controlled scheduler")),
            }
        }
    }
    println!("{}", serde_json::json!({"schedules": total, "violations": viol, "mixes": per_mix}));
}
