#!/bin/bash
# Run every registered check on the clean tree and keep the results:
#   tools_run_all.sh quick     -> evidence/<id>.json (what gets committed), log in /tmp/runall_quick.log
#   tools_run_all.sh thorough  -> copies each evidence file to evidence_thorough/<id>.json, then the caller
#                                 should re-run `quick` so that evidence/ is quick-tier again.
tier="${1:-quick}"
cd /verif || exit 2
[ -z "$(git -C /repo status --porcelain)" ] || { echo "/repo has uncommitted changes"; exit 2; }
mkdir -p evidence_thorough
rc_all=0
for c in C01 C02 C03 C04 C05 C06 C07 C08 C09 C10 C11 C12 C13 C14 C15 C16 C17 C18 C19 C20; do
  s=$(date +%s)
  out=$(./check $c --tier $tier 2>&1); rc=$?
  e=$(( $(date +%s) - s ))
  echo "$c tier=$tier rc=$rc wall=${e}s $(echo "$out" | grep -E "^\[$c\]" | tail -1)"
  echo "$out" | grep -E "KNOWN-FINDING|VIOLATION|MACHINERY" | head -5
  [ $rc -ne 0 ] && rc_all=1
  [ "$tier" = thorough ] && [ $rc -eq 0 ] && cp evidence/$c.json evidence_thorough/$c.json
done
exit $rc_all
